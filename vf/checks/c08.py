"""
C08 - listing and dry-run modes tell the build system the truth (exploration over configurations; engine E5).

Enumerated: the full product
    language {c, cpp, py, html(+--experimental-languages)} x --generate-support {always, never, as-needed, only}
    x --omit-serialization-support {off, on} x --generate-namespace-types {off, on}
    x templates {built-in, user --templates dir, user --templates + --support-templates dirs}
    x --output-extension {default, .x} x --namespace-output-stem {default, ns_}
    x namespace set {flat, nested, root + two-level --lookup-dir dependency}; the flat set has three versions
      (1.0, 1.1, 2.0) of one type directly in the root namespace, the nested set has them in a nested namespace
(2 304 configurations; the ones argparse rejects or for which the real run fails are counted and are out of scope).
The way the paths are written on the command line (absolute / relative to the working directory) is derived from
the configuration id, so both spellings occur all over the product without doubling it.

On top of the product: the *directory layout family* (192 configurations)
    language x --generate-support x --omit-serialization-support
    x {--support-templates only: top / nested / mixed; --templates + --support-templates: nested / mixed;
       --templates only: mixed}
(the remaining options rotate with the index).  "top" is the layout of the product (every template at the top level of
the directory: a real override).  "nested": the user support directory holds the templates named like the built-in
support templates ONLY in sub-directories (c/ cpp/ <language>/ old/ old/deeper/): jinja resolves a template by its
path relative to the directory, so these override nothing and the built-in template is still the one rendered.
"mixed": a real top-level override next to such same-named copies at the other depths.  In both, near-miss names
(old_<name>, <name>.bak) sit at the top level, and a user --templates directory carries the same copies of all its
top-level templates (there a nested <Type>.j2 may well be the one picked for a type: the oracle does not care who wins,
only that whatever influences the output is named).

On top of both: the *directory location family* (223 configurations): WHERE the user directories (--templates,
--support-templates, --lookup-dir, the root namespace) live and HOW they are written on the command line
    relative placement of the two template folders {siblings, same folder, support below templates, templates below
      support} x language x --generate-support                                                   (tpl = user+support)
    spelling {absolute, relative, ./x/., trailing slash, ../x from a sub-directory as working directory, x/../x,
      below a dot-folder (absolute / relative), through a symlinked parent folder (absolute / relative)}
      x language x {--templates, --templates + --support-templates, --support-templates, built-in templates}
(the other options rotate with the index; the dot-folder and the symlinked parent enclose ALL user directories, the
spelling is applied to every one of them and to the output directory).  The oracles are the same; only the populated
series is left out and the mutant runs of files that --list-inputs already names are run for a fixed eighth.

Every configuration is driven through the real CLI entry (nunavut.cli.main, in-process) inside a private sandbox
directory that encloses the DSDL roots, the user template directories, the working directory and the output directory.

Oracles (all written without using the code under test):
 (1) set(--list-outputs) == set(files the real run creates in the sandbox), as resolved absolute paths; checked with
     the output directory absent and again with the output directory populated;
 (2) --list-outputs / --list-inputs / --list-configuration / --dry-run leave the snapshot (paths, content hashes,
     modes, sizes, mtimes, directories included) of the sandbox and of the language's built-in template package
     unchanged, both with the output directory absent and populated (all mtimes are set to 2001 before each series so
     that a rewrite with identical content is seen);
 (3) influence closure: EVERY DSDL file (root and lookup, used and unused) and EVERY template / support file reachable
     in the configuration is mutated (a field is added to the DSDL; a visible token is put after every tag of a
     template, or appended), the real run is repeated, and if it still succeeds and any output byte differs from the
     unmutated run the file must be named by --list-inputs.  Files in the sandbox are mutated on disk and restored;
     built-in files are never touched: their content is mutated *as nunavut reads it*, by wrapping
     DSDLTemplateLoader.get_source from the harness side (the same wrapper records which files are loaded).

User template directories (--templates, --support-templates) are copies of the built-in ones plus non-.j2 resource
files reached by literal include, by a computed name (T.short_name / a variable), through the list form of include,
by import / from-import, from another resource, in sub-directories, and files nobody uses; and a DelimitedType.j2
that renders nothing for the types with minor version 1 (the empty output must still be created and listed).

Owned nondeterminism: the wall clock (nunavut.jinja.datetime and the time seen by gzip are replaced by constants);
every configuration runs the unmutated real run twice and a difference between the two is a harness error.
"""
from __future__ import annotations

import datetime
import hashlib
import os
import pathlib
import re
import shutil
import typing

import vf.gen as gen
from vf.core import REPO, Bag, Ctx, HarnessError, load_known_findings, match_finding, stable_hash

# ------------------------------------------------------------------------------------------------ the space
LANGS = ["c", "cpp", "py", "html"]
EXPERIMENTAL = ("cpp", "html")  # not "stable_support" in the pinned properties.yaml: need --experimental-languages
SUPPORT = ["always", "never", "as-needed", "only"]
OMIT = [0, 1]
NSTYPES = [0, 1]
TEMPLATES = ["builtin", "user", "user+support"]
EXT = ["default", ".x"]
STEM = ["default", "ns_"]
NSSET = ["flat", "nested", "lookup"]
DIMS = ["lang", "support", "omit", "nst", "tpl", "ext", "stem", "nsset"]
DOMAINS = dict(lang=LANGS, support=SUPPORT, omit=OMIT, nst=NSTYPES, tpl=TEMPLATES, ext=EXT, stem=STEM, nsset=NSSET)

# Directory layout family: where, inside a user template directory, files named like the templates in use live.
LAYOUTS = ["top", "nested", "mixed"]
NEST_DIRS = ["c", "cpp", "old", "old/deeper"]  # + the target language's own name (sibling folders per language)
# (tpl, layout) pairs of the family; "support" = --support-templates without --templates (only in the family)
FAMILY_KINDS = [("support", "top"), ("support", "nested"), ("support", "mixed"), ("user+support", "nested"), ("user+support", "mixed"), ("user", "mixed")]

# Directory location family.  PLACES: relative placement of the --templates (T) and --support-templates (S) folders.
PLACES = ["siblings", "same", "support_below_templates", "templates_below_support"]
# SPELLS: how / where the user directories are named on the command line (see geometry()).
SPELLS = ["abs", "rel", "dot", "trailing_slash", "dotdot", "dotdot_inside", "dotdir_abs", "dotdir_rel", "symlink_abs", "symlink_rel"]
SPELL_TPL_KINDS = ["user", "user+support", "support", "builtin"]
DOT_BASE = ".c08cfg"  # a "hidden" folder that encloses every user directory (dotdir_*)
REAL_BASE, LINK_BASE = "real", "link"  # symlink_*: <sandbox>/link -> real, the directories are named through link
TYPE_SER_RENAMED = "c08_type_serialization.j2"

SLOT = "# C08-SLOT"
MUT_FIELD = "uint8 c08_mutation_field"
TOKEN = "C08MUTATIONTOKEN"
OLD = 1_000_000_000  # 2001-09-09: every mtime in the sandbox before a no-write series

# name -> (root namespace dir, [lookup root dirs], {path relative to the sandbox: text})
DSDL_SETS: typing.Dict[str, typing.Tuple[str, typing.List[str], typing.Dict[str, str]]] = {
    "flat": (
        "roots/flatns",
        [],
        {
            "roots/flatns/S.1.0.dsdl": f"uint8 a\nfloat32 f\n{SLOT}\n@sealed\n",
            "roots/flatns/U.1.0.dsdl": f"@union\nuint8 a\nuint16 b\n{SLOT}\n@sealed\n",
            # three versions of one type (minor and major bump) directly in the root namespace: pydsdl's full_name
            # carries no version, so anything keyed by name alone confuses them.  Delimited, so that the added field
            # keeps the minor versions compatible (same extent).
            "roots/flatns/X.1.0.dsdl": f"uint8[<=4] data\n{SLOT}\n@extent 128\n",
            "roots/flatns/X.1.1.dsdl": f"uint8[<=4] data\nuint8 more\n{SLOT}\n@extent 128\n",
            "roots/flatns/X.2.0.dsdl": f"uint16 other\n{SLOT}\n@sealed\n",
            "roots/flatns/Svc.1.0.dsdl": f"uint8 q\n{SLOT}\n@sealed\n---\nuint8 r\n@sealed\n",
        },
    ),
    "nested": (
        "roots/nest",
        [],
        {
            "roots/nest/A.1.0.dsdl": f"uint8 a\n{SLOT}\n@sealed\n",
            "roots/nest/sub/B.1.0.dsdl": f"nest.A.1.0 a\nuint8 b\n{SLOT}\n@extent 256\n",
            # the same three-version shape inside a nested namespace
            "roots/nest/sub/B.1.1.dsdl": f"nest.A.1.0 a\nuint8 b\nuint16 c\n{SLOT}\n@extent 256\n",
            "roots/nest/sub/B.2.0.dsdl": f"uint32 d\n{SLOT}\n@sealed\n",
            "roots/nest/sub/deep/C.1.0.dsdl": f"@union\nuint8 u\nnest.A.1.0 a\n{SLOT}\n@sealed\n",
            "roots/nest/mid/leaf/E.1.0.dsdl": f"uint8 q\n{SLOT}\n@sealed\n---\nnest.A.1.0 r\n@extent 64\n",
        },
    ),
    "lookup": (
        "roots/app",
        ["lookup/dep"],
        {
            "roots/app/Msg.1.0.dsdl": f"dep.D.1.0 d\nuint8 tail\n{SLOT}\n@sealed\n",
            "roots/app/Plain.1.0.dsdl": f"@union\nuint8 a\nuint16 b\n{SLOT}\n@extent 64\n",
            "roots/app/inner/Cmd.1.0.dsdl": f"dep.inner.E.1.0 e\nuint8 q\n{SLOT}\n@sealed\n---\nuint8 r\n@sealed\n",
            # D is used directly, T only through D (transitive), inner/E from a nested namespace of the lookup
            # root, Unused by nobody (negative control: no influence, no demand).
            "lookup/dep/D.1.0.dsdl": f"dep.T.1.0 t\nuint8 x\n{SLOT}\n@sealed\n",
            "lookup/dep/T.1.0.dsdl": f"uint8 y\n{SLOT}\n@sealed\n",
            "lookup/dep/inner/E.1.0.dsdl": f"uint16 z\n{SLOT}\n@sealed\n",
            "lookup/dep/Unused.1.0.dsdl": f"uint8 w\n{SLOT}\n@sealed\n",
        },
    ),
}

NAMESPACE_TEMPLATE_FOR_C = "// C08 namespace file for {{ T.full_name }}\n"

# ---- what a user template directory may legitimately contain besides *.j2 files: resources that templates pull in.
# The template every type of the language is rendered through gets TPL_SNIPPET appended (T is in scope there).
TPL_HOST = {"c": "base.j2", "cpp": "base.j2", "py": "base.j2", "html": "type_base.j2"}
TPL_SNIPPET = (
    "\n{#- C08: resources of a user template directory, reached in every way jinja offers -#}\n"
    '{% include "c08res/literal.inc" %}\n'
    '{% include "c08res/per_type/" ~ T.short_name ~ ".inc" ignore missing %}\n'
    '{% set c08_name = "c08res/by_" ~ "variable.inc" %}{% include c08_name %}\n'
    '{% include ["c08res/absent.inc", "c08res/list_second.inc"] %}\n'
    '{% import "c08res/macros.mac" as c08m %}{{ c08m.hello() }}\n'
    '{% from "c08res/more/macros2.mac" import greet %}{{ greet() }}\n'
)
# path under the template directory -> (text, how it is reached)
TPL_RESOURCES = {
    "c08res/literal.inc": ('C08RES literal\n{% include "c08res/deep/er/nested.inc" %}\n', "literal_include"),
    "c08res/deep/er/nested.inc": ("C08RES nested\n", "include_from_a_resource"),
    "c08res/per_type/S.inc": ("C08RES for type S\n", "computed_name_T_short_name"),  # flat set
    "c08res/per_type/A.inc": ("C08RES for type A\n", "computed_name_T_short_name"),  # nested set
    "c08res/per_type/Msg.inc": ("C08RES for type Msg\n", "computed_name_T_short_name"),  # lookup set
    "c08res/per_type/Nobody.inc": ("C08RES for no type\n", "never_used"),
    "c08res/by_variable.inc": ("C08RES by variable\n", "computed_name_variable"),
    "c08res/list_second.inc": ("C08RES second of a list\n", "list_form_include"),
    "c08res/macros.mac": ("{% macro hello() %}C08RES imported macro{% endmacro %}\n", "import"),
    "c08res/more/macros2.mac": ("{% macro greet() %}C08RES from-imported macro{% endmacro %}\n", "from_import"),
    "c08res/unused.inc": ("C08RES unused\n", "never_used"),
}
# The support generator renders without T: the same, with names computed from a variable only.  Appended to every
# template of a user --support-templates directory.
STPL_SNIPPET = (
    "\n{#- C08: resources of a user support template directory -#}\n"
    '{% include "c08sres/literal.inc" %}\n'
    '{% set c08_name = "c08sres/by_" ~ "variable.inc" %}{% include c08_name %}\n'
    '{% include ["c08sres/absent.inc", "c08sres/list_second.inc"] %}\n'
    '{% import "c08sres/macros.mac" as c08m %}{{ c08m.hello() }}\n'
)
STPL_RESOURCES = {
    "c08sres/literal.inc": ('C08SRES literal\n{% include "c08sres/deep/nested.inc" %}\n', "literal_include"),
    "c08sres/deep/nested.inc": ("C08SRES nested\n", "include_from_a_resource"),
    "c08sres/by_variable.inc": ("C08SRES by variable\n", "computed_name_variable"),
    "c08sres/list_second.inc": ("C08SRES second of a list\n", "list_form_include"),
    "c08sres/macros.mac": ("{% macro hello() %}C08SRES imported macro{% endmacro %}\n", "import"),
    "c08sres/unused.inc": ("C08SRES unused\n", "never_used"),
}
REACH = {"tpl/" + k: v[1] for k, v in TPL_RESOURCES.items()}
REACH.update({"stpl/" + k: v[1] for k, v in STPL_RESOURCES.items()})
# A template that renders NOTHING for some types (minor version 1: X.1.1 / B.1.1): the real run and the listing must
# still agree on the output file.  No trailing newline (keep_trailing_newline would render it).
SILENT_WRAPPER = '{%- if T.version.minor != 1 -%}{% include "c08_orig_DelimitedType.j2" %}{%- endif -%}'

MODES = [
    ("list-outputs", ["--list-outputs"]),
    ("list-inputs", ["--list-inputs"]),
    ("list-configuration", ["--list-configuration"]),
    ("dry-run", ["--dry-run"]),
]


def layout_of(c: dict) -> str:
    return c.get("layout", "top")


def cfg_id(c: dict) -> str:
    # configurations of the product keep the id they always had (slices, path styles and recorded cases depend on it)
    return (
        "/".join(f"{k}={c[k]}" for k in DIMS) + ("" if "layout" not in c else "/layout=" + c["layout"])
        + ("" if "spell" not in c else f"/place={c['place']}/spell={c['spell']}")
    )


def _non_default(c: dict) -> int:
    return (
        (c["support"] != "as-needed") + c["omit"] + c["nst"] + (c["tpl"] != "builtin") * (1 + (c["tpl"] == "user+support"))
        + (c["ext"] != "default") + (c["stem"] != "default") + (c["nsset"] != "flat") + (layout_of(c) != "top")
        + (c.get("place", "siblings") != "siblings") + (c.get("spell", "abs") not in ("abs", "rel"))
    )


def path_style(c: dict) -> str:
    if "spell" in c:
        return c["spell"]
    return "rel" if stable_hash("pathstyle:" + cfg_id(c)) % 2 else "abs"


class Geometry(typing.NamedTuple):
    """Where the user directories of a configuration live (paths relative to the sandbox, as they are reached: through
    the symbolic link if there is one), the working directory, and the spelling function."""

    base: str  # "" or the folder (with trailing slash) that encloses every user directory, as named
    phys_base: str  # the same, as it exists on disk (differs for symlink_*)
    tpl: str
    stpl: str
    cwd: str  # "" = the sandbox itself
    spell: str

    def at(self, x: str) -> str:
        """a path of DSDL_SETS (roots/..., lookup/...) as reached"""
        return self.base + x

    def spelled(self, sb: pathlib.Path, x: str) -> str:
        """x: path relative to the sandbox (as reached) -> command line argument"""
        sp = self.spell
        if sp in ("abs", "dotdir_abs", "symlink_abs"):
            return str(sb / x)
        if sp in ("rel", "dotdir_rel", "symlink_rel"):
            return x
        if sp == "dot":
            return "./" + x + "/."
        if sp == "trailing_slash":
            return x + "/"
        if sp == "dotdot":
            return "../" + x  # the working directory is <sandbox>/work
        if sp == "dotdot_inside":
            return x + "/../" + x.rsplit("/", 1)[-1]
        raise HarnessError(f"unknown spelling {sp!r}")


def geometry(c: dict) -> Geometry:
    spell = path_style(c)
    place = c.get("place", "siblings")
    base = phys = ""
    if spell.startswith("dotdir_"):
        base = phys = DOT_BASE + "/"
    elif spell.startswith("symlink_"):
        base, phys = LINK_BASE + "/", REAL_BASE + "/"
    if place in ("siblings", "same", "support_below_templates"):
        tpl = base + "tpl"
        stpl = {"siblings": base + "stpl", "same": tpl, "support_below_templates": tpl + "/support"}[place]
    elif place == "templates_below_support":
        stpl = base + "stpl"
        tpl = stpl + "/types"
    else:
        raise HarnessError(f"unknown placement {place!r}")
    return Geometry(base, phys, tpl, stpl, "work" if spell == "dotdot" else "", spell)


def cwd_of(c: dict, sb: pathlib.Path) -> pathlib.Path:
    g = geometry(c)
    return sb / g.cwd if g.cwd else sb


def all_configs() -> typing.List[dict]:
    out = []
    for lang in LANGS:
        for support in SUPPORT:
            for omit in OMIT:
                for nst in NSTYPES:
                    for tpl in TEMPLATES:
                        for ext in EXT:
                            for stem in STEM:
                                for nsset in NSSET:
                                    out.append(
                                        dict(lang=lang, support=support, omit=omit, nst=nst, tpl=tpl, ext=ext, stem=stem, nsset=nsset)
                                    )
    return out


def family_configs() -> typing.List[dict]:
    """The directory layout family: lang x support x omit x FAMILY_KINDS; the other options rotate with the index."""
    out = []
    k = 0
    for lang in LANGS:
        for tpl, layout in FAMILY_KINDS:
            for support in SUPPORT:
                for omit in OMIT:
                    out.append(
                        dict(lang=lang, support=support, omit=omit, nst=k % 2, tpl=tpl, ext=EXT[(k // 2) % 2], stem=STEM[(k // 4) % 2],
                             nsset=NSSET[k % 3], layout=layout)
                    )
                    k += 1
    return out


def location_configs() -> typing.List[dict]:
    """The directory location family: (a) placement of the two template folders x language x --generate-support with
    the spelling rotating; (b) spelling x language x kind of user directories with --generate-support and the placement
    rotating.  The namespace set rotates too (the lookup set brings a --lookup-dir)."""
    out = []
    k = 0
    for place in PLACES:
        for lang in LANGS:
            for support in SUPPORT:
                out.append(
                    # (the pod flag only where it leaves something of the support folder to be rendered / is accepted)
                    dict(lang=lang, support=support, omit=(k // 3) % 2 if support in ("never", "as-needed") else 0, nst=k % 2, tpl="user+support", ext=EXT[(k // 2) % 2],
                         stem=STEM[(k // 4) % 2], nsset=NSSET[k % 3], place=place, spell=SPELLS[k % len(SPELLS)])
                )
                k += 1
    for si, spell in enumerate(SPELLS):
        for li, lang in enumerate(LANGS):
            for ti, tpl in enumerate(SPELL_TPL_KINDS):
                # --generate-support: all four values over the languages of a (spelling, kind) and over the spellings of
                # a (language, kind); the other options by a fixed hash of the point
                support = SUPPORT[(si + li + ti) % 4]
                h = stable_hash(f"location:{spell}:{lang}:{tpl}")
                place = PLACES[(si + li) % len(PLACES)] if tpl == "user+support" else "siblings"
                c = dict(lang=lang, support=support, omit=h % 2 if support != "always" else 0, nst=(h >> 1) % 2, tpl=tpl, ext=EXT[(h >> 2) % 2],
                         stem=STEM[(h >> 3) % 2], nsset=NSSET[(h >> 4) % 3] if tpl != "builtin" else "lookup", place=place, spell=spell)
                if cfg_id(c) not in {cfg_id(x) for x in out}:
                    out.append(c)
    return out


def location_core(fam: typing.List[dict]) -> typing.List[dict]:
    """Quick core of the location family: every non-trivial placement with --generate-support only and as-needed (the
    language rotates over the ones that have support templates), and every spelling once with a --templates directory
    in a mode that generates types (the language rotates over all four)."""
    out, ids = [], set()

    def take(pred: typing.Callable[[dict], bool]) -> None:
        for c in fam:
            if pred(c) and cfg_id(c) not in ids:
                ids.add(cfg_id(c))
                out.append(c)
                return
        raise HarnessError("location family: no configuration for a core slot")

    k = 0
    with_support = [l for l in LANGS if l != "html"]
    for place in PLACES[1:]:
        for support in ("only", "as-needed"):
            lang = with_support[k % len(with_support)]
            take(lambda c: (c["place"], c["support"], c["lang"], c["tpl"]) == (place, support, lang, "user+support"))
            k += 1
    for i, spell in enumerate(SPELLS):
        lang = LANGS[i % len(LANGS)]
        take(lambda c: c["spell"] == spell and c["lang"] == lang and c["tpl"] in ("user", "user+support") and c["support"] != "only")
    return out


def family_core(fam: typing.List[dict]) -> typing.List[dict]:
    """Quick core of the family: per language with support templates, the nested layout of a support-only directory in
    every mode that generates support, and one configuration of every other kind; for html (no support templates) the
    two kinds that have a --templates directory."""
    out = []
    for lang in LANGS:
        has_support = lang != "html"
        for tpl, layout in FAMILY_KINDS:
            if not has_support and tpl == "support":
                continue
            want = [("as-needed", 0)]
            if has_support and (tpl, layout) == ("support", "nested"):
                want = [("as-needed", 0), ("only", 0), ("always", 0), ("only", 1)]
            for support, omit in want:
                out += [c for c in fam if (c["lang"], c["tpl"], c["layout"], c["support"], c["omit"]) == (lang, tpl, layout, support, omit)]
    return out


def core_configs() -> typing.List[dict]:
    """Fixed quick core: every language x support mode x pod flag, once plain and once with every other option
    switched away from its default, rotating the namespace sets; plus the combinations named in the anchors."""
    core = []
    for lang in LANGS:
        k = 0
        for support in SUPPORT:
            for omit in OMIT:
                core.append(dict(lang=lang, support=support, omit=omit, nst=0, tpl="builtin", ext="default", stem="default", nsset=NSSET[k % 3]))
                core.append(dict(lang=lang, support=support, omit=omit, nst=1, tpl=TEMPLATES[1 + k % 2], ext=".x", stem="ns_", nsset=NSSET[(k + 1) % 3]))
                k += 1
        core.append(dict(lang=lang, support="as-needed", omit=0, nst=0, tpl="builtin", ext="default", stem="default", nsset="lookup"))
        core.append(dict(lang=lang, support="as-needed", omit=0, nst=1, tpl="user+support", ext="default", stem="default", nsset="nested"))
        core.append(dict(lang=lang, support="only", omit=1, nst=0, tpl="builtin", ext="default", stem="default", nsset="flat"))
        core.append(dict(lang=lang, support="as-needed", omit=1, nst=0, tpl="user", ext="default", stem="ns_", nsset="flat"))
        core.append(dict(lang=lang, support="always", omit=0, nst=1, tpl="builtin", ext=".x", stem="default", nsset="nested"))
    seen, out = set(), []
    for c in core:
        if cfg_id(c) not in seen:
            seen.add(cfg_id(c))
            out.append(c)
    return out


# ------------------------------------------------------------------------------------------------ harness seams
_LOADS: typing.List[str] = []  # resolved file names handed out by the template loader during the current run
_VIRTUAL: typing.Dict[str, typing.Callable[[str], str]] = {}  # resolved file name -> content mutation
_HOOKED = False
_COMPILE_CACHE: typing.Dict[tuple, typing.Any] = {}  # (source, name, filename, raw, defer_init) -> code object
_MEMO = ["off"]  # off | record (compile normally, remember the result) | use (look up first)


class _ModShim:
    """A module with a few names replaced (the rest is forwarded)."""

    def __init__(self, real: typing.Any, **over: typing.Any):
        self.__dict__["_real"] = real
        self.__dict__.update(over)

    def __getattr__(self, name: str) -> typing.Any:
        return getattr(self.__dict__["_real"], name)


class _FixedDateTime(datetime.datetime):
    @classmethod
    def utcnow(cls) -> datetime.datetime:  # type: ignore[override]
        return datetime.datetime(2020, 1, 2, 3, 4, 5)


def _install_hooks() -> None:
    global _HOOKED
    if _HOOKED:
        return
    import gzip
    import time as _time

    import nunavut.jinja as nj
    import nunavut.jinja.loaders as nl

    orig = nl.DSDLTemplateLoader.get_source

    def get_source(self: typing.Any, environment: typing.Any, template: str) -> typing.Any:
        source, filename, uptodate = orig(self, environment, template)
        key = str(pathlib.Path(filename).resolve()) if filename else "<no file>:" + template
        _LOADS.append(key)
        fn = _VIRTUAL.get(key)
        if fn is not None:
            source = fn(source)
        return source, filename, uptodate

    nl.DSDLTemplateLoader.get_source = get_source  # type: ignore[method-assign]

    # Template compilation is 80% of a run.  The first series of no-write modes and the real run are executed
    # untouched (their compiled code objects are only remembered); from then on (second real run, second series,
    # mutant runs) compiled code objects are memoised per (source text, name, file name) within ONE configuration
    # (the memo is emptied between configurations, so every environment setting is the same for all users of an
    # entry).  The second real run, which is served from the memo, must reproduce the first byte for byte.
    import nunavut.jinja.jinja2.environment as je

    orig_compile = je.Environment.compile

    def compile_(self: typing.Any, source: typing.Any, name: typing.Any = None, filename: typing.Any = None, raw: bool = False, defer_init: bool = False) -> typing.Any:
        if _MEMO[0] == "off" or not isinstance(source, str):
            return orig_compile(self, source, name, filename, raw, defer_init)
        key = (source, name, filename, raw, defer_init)
        code = _COMPILE_CACHE.get(key) if _MEMO[0] == "use" else None
        if code is None:
            code = orig_compile(self, source, name, filename, raw, defer_init)
            _COMPILE_CACHE[key] = code
        return code

    je.Environment.compile = compile_  # type: ignore[method-assign]
    if not hasattr(nj, "datetime"):
        raise HarnessError("nunavut.jinja no longer has a module global 'datetime': clock seam lost")
    nj.datetime = _ModShim(datetime, datetime=_FixedDateTime)  # type: ignore[attr-defined]
    gzip.time = _ModShim(_time, time=lambda: 1577934245.0)  # type: ignore[attr-defined]
    os.environ.pop("DSDL_INCLUDE_PATH", None)
    _HOOKED = True


class Run(typing.NamedTuple):
    rc: int
    out: str
    err: str
    exc: typing.Optional[str]
    loads: typing.FrozenSet[str]


def run_cli(argv: typing.Sequence[str], cwd: pathlib.Path) -> Run:
    gen.reset_process_state()
    del _LOADS[:]
    r = gen.cli(argv, cwd=cwd)
    return Run(r.rc, r.out, r.err, r.exc, frozenset(_LOADS))


# ------------------------------------------------------------------------------------------------ sandbox
def _lang_dir(lang: str) -> pathlib.Path:
    return REPO / "src" / "nunavut" / "lang" / lang


def _resource_files(d: pathlib.Path) -> typing.List[pathlib.Path]:
    out = []
    for dirpath, dirnames, filenames in os.walk(d):
        dirnames[:] = sorted(x for x in dirnames if x != "__pycache__")
        for f in sorted(filenames):
            if f.endswith((".py", ".pyc")):
                continue
            out.append(pathlib.Path(dirpath) / f)
    return out


def _copy_resources(src: pathlib.Path, dst: pathlib.Path) -> None:
    dst.mkdir(parents=True, exist_ok=True)
    for p in _resource_files(src):
        t = dst / p.relative_to(src)
        t.parent.mkdir(parents=True, exist_ok=True)
        shutil.copyfile(p, t)


def build_sandbox(c: dict, sb: pathlib.Path) -> None:
    if sb.exists():
        shutil.rmtree(sb)
    sb.mkdir(parents=True)
    g = geometry(c)
    if g.cwd:
        (sb / g.cwd).mkdir()
    if g.phys_base:
        (sb / g.phys_base).mkdir()
        if g.base != g.phys_base:
            os.symlink(g.phys_base.rstrip("/"), sb / g.base.rstrip("/"))
    gen.write_ns(sb, {g.phys_base + k: v for k, v in DSDL_SETS[c["nsset"]][2].items()})
    layout = layout_of(c)
    if layout not in LAYOUTS:
        raise HarnessError(f"unknown layout {layout!r}")
    if (layout != "top" and (g.tpl, g.stpl) != ("tpl", "stpl")) or (c.get("place", "siblings") != "siblings" and c["tpl"] != "user+support"):
        raise HarnessError("the layout family and the location family are not combined / a placement needs both folders")
    tdir, sdir = sb / g.tpl, sb / g.stpl
    if c["tpl"] in ("user", "user+support"):
        _copy_resources(_lang_dir(c["lang"]) / "templates", tdir)
        if c["lang"] in ("c", "cpp"):
            # the built-in C/C++ template sets have no namespace template; a user set may have one
            (tdir / "Namespace.j2").write_text(NAMESPACE_TEMPLATE_FOR_C)
        host = tdir / TPL_HOST[c["lang"]]
        host.write_text(host.read_text(encoding="utf-8") + TPL_SNIPPET, encoding="utf-8")
        gen.write_ns(tdir, {k: v[0] for k, v in TPL_RESOURCES.items()})
        (tdir / "DelimitedType.j2").rename(tdir / "c08_orig_DelimitedType.j2")
        (tdir / "DelimitedType.j2").write_text(SILENT_WRAPPER)
        if layout != "top":
            # FIND_FIRST: a --templates directory has to be complete at its top level, so "nested" and "mixed" are the same
            _scatter_same_named(tdir, c["lang"], keep_top=True)
        if tdir == sdir:
            # one folder for both: a type template named like a support template (c, cpp: serialization.j2) gets
            # another name, as a project that keeps both in one folder has to do
            for name in support_names(c["lang"]):
                if (tdir / name).exists():
                    if name != "serialization.j2":
                        raise HarnessError(f"unexpected name shared by templates/ and support/ of {c['lang']}: {name}")
                    (tdir / name).rename(tdir / TYPE_SER_RENAMED)
                    for t in sorted(tdir.glob("*.j2")):
                        text = t.read_text(encoding="utf-8")
                        if "'serialization.j2'" in text:
                            t.write_text(text.replace("'serialization.j2'", "'" + TYPE_SER_RENAMED + "'"), encoding="utf-8")
    if c["tpl"] in ("support", "user+support"):
        _copy_resources(_lang_dir(c["lang"]) / "support", sdir)
        hosts = sorted(sdir / n for n in support_names(c["lang"]) if n.endswith(".j2"))
        if hosts != sorted(p for p in sdir.glob("*.j2") if tdir != sdir or p.name in support_names(c["lang"])):
            raise HarnessError("support template hosts are not the top-level templates of the support folder")
        for host in hosts:
            host.write_text(host.read_text(encoding="utf-8") + STPL_SNIPPET, encoding="utf-8")
        if hosts:
            gen.write_ns(sdir, {k: v[0] for k, v in STPL_RESOURCES.items()})
        if layout != "top":
            _scatter_same_named(sdir, c["lang"], keep_top=(layout == "mixed"))


def support_names(lang: str) -> typing.List[str]:
    """names (relative to the folder) of the files of the language's built-in support folder"""
    d = _lang_dir(lang) / "support"
    return sorted(str(p.relative_to(d)) for p in _resource_files(d))


def nest_dirs(lang: str) -> typing.List[str]:
    return NEST_DIRS + ([] if lang in NEST_DIRS else [lang])


def _scatter_same_named(d: pathlib.Path, lang: str, keep_top: bool) -> None:
    """Puts a copy of every top-level template of the directory into each of the nested directories (same file name,
    other depth: jinja never resolves "<name>" to them), and near-miss names next to the originals; without
    keep_top the top-level templates themselves are removed afterwards (nothing is left that overrides)."""
    for t in sorted(d.glob("*.j2")):
        text = t.read_text(encoding="utf-8")
        for nd in nest_dirs(lang):
            (d / nd).mkdir(parents=True, exist_ok=True)
            (d / nd / t.name).write_text(text + "\n{# C08: copy of " + t.name + " kept under " + nd + "/ #}\n", encoding="utf-8")
        (d / ("old_" + t.name)).write_text(text + "\n{# C08: near-miss name #}\n", encoding="utf-8")
        (d / (t.name + ".bak")).write_text(text + "\n{# C08: near-miss suffix #}\n", encoding="utf-8")
        if not keep_top:
            t.unlink()


def build_argv(c: dict, sb: pathlib.Path, flags: typing.Sequence[str]) -> typing.List[str]:
    g = geometry(c)

    def P(x: str) -> str:
        return g.spelled(sb, x)

    root, lookups, _ = DSDL_SETS[c["nsset"]]
    root, lookups = g.at(root), [g.at(l) for l in lookups]
    a = ["--target-language", c["lang"]]
    if c["lang"] in EXPERIMENTAL:
        a.append("--experimental-languages")
    a += ["--outdir", P("out"), "--generate-support", c["support"]]
    if c["omit"]:
        a.append("--omit-serialization-support")
    if c["nst"]:
        a.append("--generate-namespace-types")
    if c["tpl"] in ("user", "user+support"):
        a += ["--templates", P(g.tpl)]
    if c["tpl"] in ("support", "user+support"):
        a += ["--support-templates", P(g.stpl)]
    if c["ext"] != "default":
        a += ["--output-extension", c["ext"]]
    if c["stem"] != "default":
        a += ["--namespace-output-stem", c["stem"]]
    for l in lookups:
        a += ["--lookup-dir", P(l)]
    a += list(flags)
    a.append(P(root))
    return a


def _age(root: pathlib.Path) -> None:
    for dirpath, dirnames, filenames in os.walk(root, topdown=False):
        for n in filenames + dirnames:
            os.utime(os.path.join(dirpath, n), (OLD, OLD), follow_symlinks=False)
    os.utime(root, (OLD, OLD))


def _snap(c: dict, sb: pathlib.Path) -> dict:
    s = {"sandbox/" + k: v for k, v in gen.snapshot(sb, with_mtime=True).items()}
    # built-in package of the language: files only, byte-code caches of concurrent processes are not our business
    for k, v in gen.snapshot(_lang_dir(c["lang"]), with_mtime=True).items():
        if "__pycache__" in k or k.endswith("/") or k.endswith(".pyc"):
            continue
        s["builtin/" + k] = v
    return s


def _diff(a: dict, b: dict) -> typing.List[str]:
    out = []
    for k in sorted(set(a) | set(b)):
        if k not in a:
            out.append("created " + k)
        elif k not in b:
            out.append("deleted " + k)
        elif a[k] != b[k]:
            what = "content" if a[k][0] != b[k][0] else ("mode" if a[k][1] != b[k][1] else "mtime")
            out.append(f"modified({what}) {k}")
    return out


def _diff_feature(d: typing.List[str]) -> str:
    """Classifies a snapshot difference for the signature (never the raw paths)."""
    kinds = set()
    for line in d:
        verb, path = line.split(" ", 1)
        where = "output_dir" if path.startswith("sandbox/out") else ("builtin" if path.startswith("builtin/") else "inputs")
        what = "dir" if path.endswith("/") else "file"
        kinds.add(f"{verb}:{where}:{what}")
    return ",".join(sorted(kinds))


def _files(sb: pathlib.Path) -> typing.Dict[str, str]:
    """every regular file under the sandbox: resolved absolute path -> sha256"""
    out = {}
    for dirpath, _, filenames in os.walk(sb):
        for f in filenames:
            p = pathlib.Path(dirpath) / f
            out[str(p.resolve())] = hashlib.sha256(p.read_bytes()).hexdigest()
    return out


def _parse_list(text: str, cwd: pathlib.Path) -> typing.List[str]:
    items = [x for x in text.split(";") if x.strip() != ""]
    return [str((cwd / x.strip()).resolve()) for x in items]


def _category(c: dict, rel: str) -> str:
    """What kind of output a path under the output directory is (from the documented layout, not from nunavut)."""
    name = pathlib.PurePosixPath(rel).name
    stem = name.split(".")[0] if not name.startswith("__init__") else "__init__"
    if rel.startswith("out/nunavut/support/") or stem == "nunavut_support":
        return "support"
    if re.search(r"_\d+_\d+(\.|$)", name):
        return "type"
    return "namespace"


# ------------------------------------------------------------------------------------------------ mutations
def _mut_after_tags(s: str) -> str:
    return re.sub(r"(%\})", r"\1" + TOKEN, s)


def _mut_append(s: str) -> str:
    return s + ("" if s.endswith("\n") or not s else "\n") + TOKEN + "\n"


def _template_mutations(text: str) -> typing.List[typing.Tuple[str, typing.Callable[[str], str]]]:
    if "%}" in text:
        return [("token_after_every_tag", _mut_after_tags), ("token_appended", _mut_append)]
    return [("token_appended", _mut_append)]


class _Subject(typing.NamedTuple):
    what: str  # root_dsdl | lookup_dsdl | template | support_template
    origin: str  # sandbox | builtin
    path: pathlib.Path  # real file
    label: str  # path relative to the sandbox / the language package (for the case)


def _subjects(c: dict, sb: pathlib.Path) -> typing.List[_Subject]:
    subs = []
    root, _, files = DSDL_SETS[c["nsset"]]
    g = geometry(c)
    for rel in files:
        subs.append(_Subject("root_dsdl" if rel.startswith(root + "/") else "lookup_dsdl", "sandbox", sb / g.phys_base / rel, rel))
    ld = _lang_dir(c["lang"])
    # The labels are logical ("tpl/<path in the --templates folder>", "stpl/<path in the --support-templates folder>")
    # wherever the folders are.  A file that is below both folders is named once, after the folder that is nearer to
    # it; in a shared folder after the built-in set it was copied from.
    tdir, sdir = (sb / g.tpl).resolve(), (sb / g.stpl).resolve()
    has_t, has_s = c["tpl"] in ("user", "user+support"), c["tpl"] in ("support", "user+support")
    snames = set(support_names(c["lang"])) | set(STPL_RESOURCES)

    def is_support_file(p: pathlib.Path) -> bool:
        if not has_s or sdir not in p.parents:
            return False
        if not has_t or tdir not in p.parents:
            return True
        if tdir == sdir:
            return str(p.relative_to(sdir)) in snames
        return tdir in sdir.parents  # support below templates: nearer; templates below support: the file is a template

    if not has_t:
        for p in _resource_files(ld / "templates"):
            subs.append(_Subject("template", "builtin", p, str(p.relative_to(ld))))
    else:
        for p in _resource_files(tdir):
            if not is_support_file(p):
                subs.append(_Subject("template", "sandbox", p, "tpl/" + str(p.relative_to(tdir))))
    if has_s:
        for p in _resource_files(sdir):
            if is_support_file(p):
                subs.append(_Subject("support_template", "sandbox", p, "stpl/" + str(p.relative_to(sdir))))
    for p in _resource_files(ld / "support"):
        subs.append(_Subject("support_template", "builtin", p, str(p.relative_to(ld))))
    return subs


# ------------------------------------------------------------------------------------------------ one configuration
def evaluate(c: dict, sb: pathlib.Path, only_subject: typing.Optional[str] = None) -> dict:
    """Runs every oracle on one configuration. Returns a picklable result."""
    _install_hooks()
    _VIRTUAL.clear()
    _COMPILE_CACHE.clear()
    _MEMO[0] = "record"
    cid = cfg_id(c)
    bag = Bag()
    stats: typing.Dict[str, int] = {}
    res: typing.Dict[str, typing.Any] = dict(id=cid, cfg=c, bag=bag, stats=stats, status="?", outcome=None, influences=0, sample=None)

    def count(k: str, n: int = 1) -> None:
        stats[k] = stats.get(k, 0) + n

    def report(sig: dict, what: str, **kw: typing.Any) -> None:
        d = {"config": dict(c), "oracle": sig["kind"]}
        d.update(kw)
        bag.add(sig, d, what)

    build_sandbox(c, sb)
    style = path_style(c)
    count("pathstyle_" + style)
    cwd = cwd_of(c, sb)
    in_loc = "spell" in c  # the directory location family

    def series(state: str) -> typing.Tuple[typing.Dict[str, Run], typing.List[typing.Tuple[str, str, typing.List[str]]]]:
        runs, diffs = {}, []
        _age(sb)
        before = _snap(c, sb)
        for mode, flags in MODES:
            r = run_cli(build_argv(c, sb, flags), cwd)
            count("cli_runs")
            runs[mode] = r
            after = _snap(c, sb)
            d = _diff(before, after)
            if d:
                diffs.append((state, mode, d))
                # put the state back so that the next mode is judged on its own
                if state == "absent":
                    build_sandbox(c, sb)
                else:
                    build_sandbox(c, sb)
                    rr = run_cli(build_argv(c, sb, []), cwd)
                    if rr.rc != 0:
                        raise HarnessError(f"{cid}: cannot re-create the populated state: {rr.exc or rr.err[-300:]}")
                _age(sb)
                before = _snap(c, sb)
            else:
                before = after
        return runs, diffs

    # ---- series 1: output directory absent
    runs0, diffs = series("absent")
    pre = _files(sb)
    real = run_cli(build_argv(c, sb, []), cwd)
    count("cli_runs")
    if real.rc != 0:
        if real.rc == 2 and real.exc is None and "error:" in real.err:
            res["status"] = "rejected_by_argparse"
        else:
            res["status"] = "generation_failed"
            res["fail_reason"] = (real.exc or real.err.strip().splitlines()[-1] if (real.exc or real.err.strip()) else "rc=%d" % real.rc)[:120]
        if diffs:
            count("nowrite_change_in_config_without_successful_generation")
        for mode, r in runs0.items():
            if r.rc == 0:
                count("mode_ok_although_generation_fails:" + mode)
        return res
    res["status"] = "generated"
    post = _files(sb)
    created = {p for p in post if p not in pre}
    changed_inputs = sorted(p for p in pre if post.get(p) != pre[p])
    if changed_inputs:
        count("real_run_changed_existing_files")
    out_dir = str((sb / "out").resolve())
    baseline = {p: post[p] for p in created}
    rel_outputs = sorted(os.path.relpath(p, str(sb.resolve())) for p in created)
    res["outcome"] = (c["lang"], tuple(rel_outputs))
    if not created:
        count("configs_generating_nothing")
    if any(not p.startswith(out_dir + os.sep) for p in created):
        count("real_run_created_files_outside_outdir")

    # ---- oracle 2 (absent state)
    def report_nowrite(dl: typing.List[typing.Tuple[str, str, typing.List[str]]]) -> None:
        for state, mode, d in dl:
            report(
                {"kind": "no_write_mode_touched_disk", "mode": mode, "outdir": state, "change": _diff_feature(d)},
                f"--{mode} with the output directory {state}: {'; '.join(d[:4])}{' ...' if len(d) > 4 else ''}  [{cid}]",
                mode=mode, outdir=state,
            )

    report_nowrite(diffs)

    # ---- oracle 1
    def check_outputs(r: Run, state: str) -> None:
        if r.rc != 0:
            report(
                {"kind": "mode_failed_although_generation_succeeds", "mode": "list-outputs"},
                f"--list-outputs fails ({r.exc or r.err.strip()[-120:]}) although the real run succeeds  [{cid}]",
                mode="list-outputs", outdir=state,
            )
            return
        listed = _parse_list(r.out, cwd)
        if len(listed) != len(set(listed)):
            count("list_outputs_has_duplicates")
        for p in sorted(set(listed) - created):
            relp = os.path.relpath(p, str(sb.resolve()))
            report(
                {"kind": "listed_output_not_created", "category": _category(c, relp), "support": c["support"], "omit": c["omit"]},
                f"--list-outputs names {relp} which the real run does not create  [{cid}]",
                mode="list-outputs", outdir=state, path=relp,
            )
        for p in sorted(created - set(listed)):
            relp = os.path.relpath(p, str(sb.resolve()))
            report(
                {"kind": "created_output_not_listed", "category": _category(c, relp), "support": c["support"], "omit": c["omit"]},
                f"the real run creates {relp} which --list-outputs does not name  [{cid}]",
                mode="list-outputs", outdir=state, path=relp,
            )

    check_outputs(runs0["list-outputs"], "absent")

    li = runs0["list-inputs"]
    listed_inputs: typing.Set[str] = set()
    if li.rc != 0:
        report(
            {"kind": "mode_failed_although_generation_succeeds", "mode": "list-inputs"},
            f"--list-inputs fails ({li.exc or li.err.strip()[-120:]}) although the real run succeeds  [{cid}]",
            mode="list-inputs", outdir="absent",
        )
    else:
        listed_inputs = set(_parse_list(li.out, cwd))
    for mode in ("list-configuration", "dry-run"):
        if runs0[mode].rc != 0:
            count("mode_fails_although_generation_succeeds:" + mode)

    # ---- the unmutated run must be reproducible (now with memoised template compilation), otherwise oracle 3
    # means nothing
    _MEMO[0] = "use"
    shutil.rmtree(sb / "out", ignore_errors=True)
    again = run_cli(build_argv(c, sb, []), cwd)
    count("cli_runs")
    post2 = _files(sb)
    base2 = {p: h for p, h in post2.items() if p not in pre}
    if again.rc != 0 or base2 != baseline:
        bad = sorted(set(base2) ^ set(baseline)) + sorted(p for p in baseline if p in base2 and base2[p] != baseline[p])
        raise HarnessError(
            f"{cid}: two identical real runs differ ({bad[:3]}): nondeterminism not owned by the harness, or the "
            "template compilation memo is not transparent"
        )

    # ---- series 2: output directory populated (files are read-only as the real run leaves them)
    if not in_loc:
        runs1, diffs1 = series("populated")
        report_nowrite(diffs1)
        check_outputs(runs1["list-outputs"], "populated")
        if _files(sb) != post2:
            # series() restores the state after a difference; anything else is the harness' fault
            if not diffs1:
                raise HarnessError(f"{cid}: sandbox changed during the populated series without a recorded difference")

    # ---- oracle 3: influence closure
    loaded = real.loads
    res["loaded"] = len(loaded)

    def regenerate() -> typing.Optional[typing.Dict[str, str]]:
        shutil.rmtree(sb / "out", ignore_errors=True)
        r = run_cli(build_argv(c, sb, []), cwd)
        count("cli_runs")
        count("mutant_runs")
        if r.rc != 0:
            count("mutant_run_failed")
            return None
        now = _files(sb)
        return {p: h for p, h in now.items() if p not in pre}

    subjects = [s for s in _subjects(c, sb) if only_subject is None or s.label == only_subject]

    # Sandbox templates the loader never handed out during the real run are first mutated all together: if the
    # output stays the same none of them influences it (the usual case); otherwise each one is tried on its own.
    cold = [s for s in subjects if not s.what.endswith("_dsdl") and s.origin == "sandbox" and str(s.path.resolve()) not in loaded]
    cold_silent: typing.Set[str] = set()
    if len(cold) > 1:
        originals: typing.Dict[pathlib.Path, str] = {}
        try:
            for s in cold:
                try:
                    text = s.path.read_text(encoding="utf-8")
                except UnicodeDecodeError:
                    continue
                originals[s.path] = text
                s.path.write_text(_template_mutations(text)[0][1](text), encoding="utf-8")
            outs = regenerate()
        finally:
            for path, text in originals.items():
                path.write_text(text, encoding="utf-8")
        if outs == baseline:
            cold_silent = {s.label for s in cold if s.path in originals}
            count("never_loaded_templates_mutated_together")

    layout = layout_of(c)
    power_labels = {"tpl/" + TPL_HOST[c["lang"]]} | {"stpl/" + n for n in support_names(c["lang"]) if n.endswith(".j2")}

    def placement(s: _Subject) -> typing.Optional[str]:
        """Where a template sits relative to the names jinja resolves (layout family only; from the way the sandbox was
        built, not from nunavut)."""
        if layout == "top" and c["tpl"] != "support":
            return None
        if s.what.endswith("_dsdl") or s.label in REACH:
            return None
        if s.origin == "builtin":
            if s.what == "support_template" and c["tpl"] in ("support", "user+support"):
                return "builtin_beside_user_dir"
            return None
        parts = pathlib.PurePosixPath(s.label).parts  # ("tpl" | "stpl", ..., name)
        if s.path.suffix != ".j2":
            return parts[0] + ":near_miss_name" if s.path.name.endswith(".j2.bak") else None
        if len(parts) == 2:
            return parts[0] + (":near_miss_name" if parts[1].startswith("old_") else ":top_level")
        return parts[0] + ":same_name_at_depth_%d" % (len(parts) - 2)

    for s in subjects:
        key = str(s.path.resolve())
        count("subjects:" + s.what + ":" + s.origin)
        place = placement(s)
        if s.label in cold_silent:
            count("not_loaded:" + s.what + ":" + s.origin)
            count("no_influence_shown:" + s.what + ":" + s.origin)
            if place:
                count(f"layout:{layout}:{place}:no_influence")
            continue
        if s.label in REACH and li.rc == 0 and key in listed_inputs and stable_hash("power:" + cid + s.label) % 4:
            # A file that --list-inputs already names cannot violate oracle 3; its mutant run only shows that the
            # mutation has power.  For the added resource files that evidence is collected in a fixed quarter of
            # the configurations (a function of the configuration and the file only).
            count("listed_resource_mutant_skipped")
            continue
        if "layout" in c and li.rc == 0 and key in listed_inputs and not (place and (place.startswith("stpl:") or place == "builtin_beside_user_dir")):
            # Layout family: the same economy for every file that is already named, except the ones the family is
            # about (whatever lives in, or is shadowed by, the user support directory): their mutants are always run,
            # they are what shows which file was really rendered.
            if stable_hash("power:" + cid + s.label) % 4:
                count("listed_subject_mutant_skipped_in_layout_family")
                continue
        if in_loc and li.rc == 0 and key in listed_inputs and s.label not in power_labels and stable_hash("power:" + cid + s.label) % 8:
            # Location family: a file that is named cannot violate oracle 3; a fixed eighth of them is mutated all the
            # same to show that the files of a folder at this place / spelled this way are the ones rendered; the
            # template every type goes through and the support templates always are.
            count("listed_subject_mutant_skipped_in_location_family")
            continue
        if s.what.endswith("_dsdl"):
            original = s.path.read_text()
            if SLOT not in original:
                raise HarnessError("DSDL text without mutation slot: " + s.label)
            attempts = [("field_added", lambda t: t.replace(SLOT, MUT_FIELD))]
        else:
            try:
                original = s.path.read_text(encoding="utf-8")
            except UnicodeDecodeError:
                count("binary_resource_skipped")
                continue
            attempts = _template_mutations(original)
            if key not in loaded:
                count("not_loaded:" + s.what + ":" + s.origin)
                if s.origin == "builtin":
                    # a virtual mutation acts only through the loader; a file the loader never hands out cannot be
                    # mutated that way (support files that are copied verbatim would need a writable package)
                    if place:
                        count(f"layout:{layout}:{place}:not_loaded")
                    continue
                attempts = attempts[:1]  # one mutation as a check of "never loaded => no influence"
        influence = None
        for mname, fn in attempts:
            if s.origin == "sandbox":
                s.path.write_text(fn(original), encoding="utf-8")
            else:
                _VIRTUAL[key] = fn
            try:
                outs = regenerate()
            finally:
                if s.origin == "sandbox":
                    s.path.write_text(original, encoding="utf-8")
                else:
                    _VIRTUAL.clear()
            if outs is None:
                continue
            if outs != baseline:
                influence = mname
                break
        if influence is None:
            count("no_influence_shown:" + s.what + ":" + s.origin)
            if place:
                count(f"layout:{layout}:{place}:no_influence")
            continue
        res["influences"] += 1
        count("influence_shown:" + s.what + ":" + s.origin)
        if in_loc and s.origin == "sandbox":
            count(f"location:spell={style}:influence:{s.what}")
            count(f"location:place={c['place']}:influence:{s.what}")
        if place:
            count(f"layout:{layout}:{place}:influence")
        if s.label in REACH:
            count("influence_shown_reach:" + s.label.split("/")[0] + ":" + REACH[s.label])
        if li.rc != 0:
            continue
        if key in listed_inputs:
            count("influencing_input_listed:" + s.what)
            continue
        sig = {"kind": "input_not_listed", "what": s.what}
        if not s.what.endswith("_dsdl"):
            sig["origin"] = "user_dir" if s.origin == "sandbox" else "builtin"
            sig["suffix"] = s.path.suffix
            if s.label in REACH:
                sig["reach"] = REACH[s.label]
            if place:
                sig["user_dir_layout"] = layout
                sig["placement"] = place
            if in_loc and s.origin == "sandbox":
                # what of the location matters is not known: both features are part of the classification
                sig["user_dir_spelling"] = style
                sig["user_dirs_relative_placement"] = c["place"]
        report(
            sig,
            f"{s.label} changes the generated output ({influence}) but --list-inputs does not name it  [{cid}]",
            subject=s.label, mutation=influence,
        )

    # leave a sample of what was explored
    res["sample"] = {
        "config": cid,
        "paths": style,
        "outputs": rel_outputs[:4] + (["..."] if len(rel_outputs) > 4 else []),
        "inputs_listed": len(listed_inputs),
        "files_shown_to_influence": res["influences"],
    }
    return res


# ------------------------------------------------------------------------------------------------ pool glue
def _work(job: typing.Tuple[int, dict, str]) -> dict:
    idx, c, scratch = job
    sb = pathlib.Path(scratch) / f"sb{idx}"
    try:
        r = evaluate(c, sb)
    except HarnessError as e:
        return dict(id=cfg_id(c), cfg=c, harness_error=str(e))
    finally:
        shutil.rmtree(sb, ignore_errors=True)
    return r


def _rework(job: typing.Tuple[int, dict, str]) -> dict:
    idx, case, scratch = job
    sb = pathlib.Path(scratch) / f"re{idx}"
    try:
        r = evaluate(case["config"], sb, only_subject=case.get("subject", "<none>"))
    except HarnessError as e:
        return dict(harness_error=str(e))
    finally:
        shutil.rmtree(sb, ignore_errors=True)
    return r


def _tree_fingerprint() -> str:
    """sizes + mtimes of every source file of the tree under test (to notice a commit landing during the run)"""
    h = hashlib.sha256()
    for dirpath, dirnames, filenames in os.walk(REPO / "src" / "nunavut"):
        dirnames[:] = sorted(d for d in dirnames if d != "__pycache__")
        for f in sorted(filenames):
            if f.endswith(".pyc"):
                continue
            st = os.stat(os.path.join(dirpath, f))
            h.update(f"{dirpath}/{f}:{st.st_size}:{st.st_mtime_ns}\n".encode())
    return h.hexdigest()


def run(ctx: Ctx) -> int:
    fingerprint = _tree_fingerprint()
    space = all_configs()
    core = core_configs()
    core_ids = {cfg_id(c) for c in core}
    rest = [c for c in space if cfg_id(c) not in core_ids]
    chosen = core + [c for c in rest if ctx.in_slice(cfg_id(c))]
    # the directory layout family (same rule: fixed core + seed slice; thorough: all of it)
    family = family_configs()
    fam_core = family_core(family)
    fam_core_ids = {cfg_id(c) for c in fam_core}
    chosen += fam_core + [c for c in family if cfg_id(c) not in fam_core_ids and ctx.in_slice(cfg_id(c))]
    # the directory location family (same rule again)
    loc = location_configs()
    loc_core = location_core(loc)
    loc_core_ids = {cfg_id(c) for c in loc_core}
    chosen += loc_core + [c for c in loc if cfg_id(c) not in loc_core_ids and ctx.in_slice(cfg_id(c))]
    if len({cfg_id(c) for c in chosen}) != len(chosen):
        raise HarnessError("configuration ids are not unique")
    space = space + family + loc
    core = core + fam_core + loc_core
    # longest first (py/html and user template sets have the most subjects): better pool balance, same set
    chosen.sort(key=lambda c: (-(c["tpl"] != "builtin") - (c["lang"] in ("html", "cpp")), cfg_id(c)))
    jobs = [(i, c, str(ctx.scratch)) for i, c in enumerate(chosen)]
    results = ctx.pool_map(_work, jobs)
    if _tree_fingerprint() != fingerprint:
        raise HarnessError(f"the tree under test ({REPO}/src/nunavut) was modified while the check was running; run again")

    outcomes, evals, mutant_runs = set(), 0, 0
    status: typing.Dict[str, int] = {}
    nontrivial = 0
    value_seen: typing.Dict[str, set] = {d: set() for d in DIMS}
    kinds_seen: typing.Set[typing.Tuple[str, str]] = set()
    spells_seen: typing.Set[str] = set()
    places_seen: typing.Set[typing.Tuple[str, str]] = set()
    fail_reasons: typing.Dict[str, int] = {}
    best: typing.Dict[str, typing.Tuple[tuple, typing.Any, int]] = {}
    for r in results:
        if "harness_error" in r:
            raise HarnessError(r["harness_error"])
        status[r["status"]] = status.get(r["status"], 0) + 1
        for k, v in r["stats"].items():
            ctx.count(k, v)
        evals += r["stats"].get("cli_runs", 0)
        mutant_runs += r["stats"].get("mutant_runs", 0)
        if r["status"] == "generation_failed":
            fr = f"{r['cfg']['lang']}: {r.get('fail_reason')}"
            fail_reasons[fr] = fail_reasons.get(fr, 0) + 1
        if r["status"] != "generated":
            continue
        outcomes.add(r["outcome"])
        for d in DIMS:
            value_seen[d].add(r["cfg"][d])
        if "layout" in r["cfg"]:
            kinds_seen.add((r["cfg"]["tpl"], r["cfg"]["layout"]))
        if "spell" in r["cfg"]:
            spells_seen.add(r["cfg"]["spell"])
            places_seen.add((r["cfg"]["place"], r["cfg"]["support"]))
        if r["influences"] > 0:
            nontrivial += 1
        # the case kept per signature is the one in the most ordinary configuration (fewest options off default)
        rank = (_non_default(r["cfg"]), LANGS.index(r["cfg"]["lang"]), r["id"])
        for key, v in r["bag"].v.items():
            cur = best.get(key)
            if cur is None:
                best[key] = (rank, v, v.count)
            elif rank < cur[0]:
                best[key] = (rank, v, cur[2] + v.count)
            else:
                best[key] = (cur[0], cur[1], cur[2] + v.count)
    for key in sorted(best):
        _, v, n = best[key]
        ctx.violation(v.sig, v.case, v.what, n)
    seen_kinds = set()
    for r in sorted((r for r in results if r.get("sample")), key=lambda r: (_non_default(r["cfg"]), r["id"])):
        kind = (r["cfg"]["lang"], r["cfg"]["tpl"] != "builtin")
        if kind not in seen_kinds and len(ctx.samples) < 6 and r["influences"] > 0:
            seen_kinds.add(kind)
            ctx.samples.append(r["sample"])

    # re-execute every distinct violation once from its recorded minimal case (DESIGN section 1, determinism)
    vs = list(ctx.bag.v.items())
    re_results = ctx.pool_map(_rework, [(i, v.case, str(ctx.scratch)) for i, (_, v) in enumerate(vs)])
    for (key, v), rr in zip(vs, re_results):
        if "harness_error" in rr:
            raise HarnessError("re-execution: " + rr["harness_error"])
        if key not in rr["bag"].v:
            raise HarnessError(f"violation {v.sig} did not reproduce from its recorded case {v.case}")

    # Vacuity: every value of every option must have been seen in a configuration that generated, and every class
    # of mutation subject must have shown influence at least once (and the negative control none), otherwise a
    # silent run proves nothing.  Violations that are not known findings are reported first (exit 1 beats exit 2).
    findings = load_known_findings(ctx.pid)
    unknown = [v for v in ctx.bag.v.values() if match_finding(findings, v) is None]
    if not unknown:
        for d in DIMS:
            missing = [v for v in DOMAINS[d] if v not in value_seen[d]]
            if missing:
                raise HarnessError(f"vacuous exploration: no successful generation with {d} in {missing}")
        missing_kinds = [k for k in FAMILY_KINDS if k not in kinds_seen]
        if missing_kinds:
            raise HarnessError(f"vacuous exploration: no successful generation with the directory layouts {missing_kinds}")
        # Location family: every spelling and every placement (the non-trivial ones both with --generate-support only
        # and with a mode that generates types) must have generated, and for each of them a mutation of a file of the
        # user template folders must have changed the output (the folder that was named is the folder that is used).
        missing_loc = [sp for sp in SPELLS if sp not in spells_seen] + [
            (pl, su) for pl in PLACES for su in ("only", "as-needed") if (pl, su) not in places_seen and pl != "siblings"
        ]
        if missing_loc:
            raise HarnessError(f"vacuous exploration: no successful generation with the directory locations {missing_loc}")
        for need in [f"location:spell={sp}:influence:template" for sp in SPELLS] + [
            f"location:place={pl}:influence:{w}" for pl in PLACES[1:] for w in ("template", "support_template")
        ]:
            if ctx.stats.get(need, 0) == 0:
                raise HarnessError(f"vacuous exploration: the directory location family never showed {need}")
        # The layout family means something only if (a) with nothing but same-named files at other depths in the
        # user support directory the BUILT-IN support template was the one rendered (its mutation changed the output),
        # (b) with a top-level file next to them that file was, and (c) the copies of a support directory never were.
        for need in (
            "layout:nested:builtin_beside_user_dir:influence",
            "layout:mixed:stpl:top_level:influence",
            "layout:top:stpl:top_level:influence",
            "layout:mixed:tpl:top_level:influence",
            "layout:nested:stpl:same_name_at_depth_1:no_influence",
            "layout:nested:stpl:same_name_at_depth_2:no_influence",
            "layout:mixed:stpl:same_name_at_depth_1:no_influence",
            "layout:mixed:stpl:near_miss_name:no_influence",
            "layout:mixed:tpl:same_name_at_depth_1:no_influence",
        ):
            if ctx.stats.get(need, 0) == 0:
                raise HarnessError(f"vacuous exploration: the directory layout family never showed {need}")
        for need in ("root_dsdl:sandbox", "lookup_dsdl:sandbox", "template:sandbox", "template:builtin", "support_template:sandbox", "support_template:builtin"):
            if ctx.stats.get("influence_shown:" + need, 0) == 0:
                raise HarnessError(f"vacuous exploration: no mutation of a {need} file ever changed the output")
        for label, reach in sorted(REACH.items()):
            need = "influence_shown_reach:" + label.split("/")[0] + ":" + reach
            if reach != "never_used" and ctx.stats.get(need, 0) == 0:
                raise HarnessError(f"vacuous exploration: no mutation of a resource reached by {need} changed the output")
        if ctx.stats.get("no_influence_shown:lookup_dsdl:sandbox", 0) == 0:
            raise HarnessError("vacuous exploration: the unused lookup file (negative control) was never exercised")

    ctx.stats.update(
        configurations_in_space=len(space),
        configurations_explored=len(chosen),
        core_configurations=len(core),
        status=status,
        generation_failed_reasons=fail_reasons,
    )
    cov = {
        "evaluations": evals,
        "configurations": len(chosen),
        "configurations_generated": status.get("generated", 0),
        "configurations_rejected_by_argparse": status.get("rejected_by_argparse", 0),
        "configurations_generation_failed": status.get("generation_failed", 0),
        "mutant_regenerations": mutant_runs,
        "distinct_nontrivial": nontrivial,
        "distinct_outcomes": len(outcomes),
        "rule": "one evaluation = one in-process execution of the real nnvg entry point; a configuration is non-trivial "
        "when its real run succeeded, all three oracles were evaluated and at least one DSDL/template mutation "
        "changed an output byte (configurations are distinct by construction: one per point of the option product); "
        "distinct_outcomes = distinct (language, set of relative output paths)",
        "bound_completed": f"{len(chosen)}/{len(space)} points of lang x generate-support x pod x namespace-types x "
        f"templates x extension x namespace-stem x namespace-set plus the {len(family)} points of the directory layout family "
        f"lang x generate-support x pod x {{support dir: top/nested/mixed; templates+support dirs: nested/mixed; templates "
        f"dir: mixed}} with same-named copies under {'/ '.join(NEST_DIRS)}/ <lang>/ "
        f"plus the {len(loc)} points of the directory location family {{placement of --templates / --support-templates: "
        f"{', '.join(PLACES)}}} x lang x generate-support and {{spelling of every user directory: {', '.join(SPELLS)}}} x lang x "
        f"{{{', '.join(SPELL_TPL_KINDS)}}} (no populated series there) "
        f"(core {len(core)} + seed slice); per point: 4 no-write "
        "modes x {outdir absent, populated}, 2 real runs, one mutation run per DSDL file and one or two per "
        "template/support file",
        "exhaustive": bool(ctx.thorough),
    }
    return ctx.finish(
        "exploration",
        cov,
        [
            "three fixed namespace sets (6-7 small types: struct, union, delimited, service; three versions of one type "
            "at root and at nested level; nesting depth <= 3; one two-level lookup dependency) stand for all "
            "namespace sets",
            "a template influences the output iff putting a visible token after every tag (or at the end of the file) "
            "changes an output byte; a mutant for which generation fails is counted but proves nothing",
            "built-in templates are mutated as read through DSDLTemplateLoader.get_source (harness-side wrapper), never "
            "on disk; a built-in file the loader never hands out is assumed not to influence the output",
            "only the sandbox directory and the language's built-in package directory are watched for writes",
            "directory layouts: same-named copies at depth 1 and 2 in five folders and two near-miss names per template stand "
            "for all placements of a file that does not override; in the layout family the options generate-namespace-types, "
            "output-extension, namespace-stem and the namespace set rotate with the index instead of being multiplied",
            "directory locations: one dot-folder / one symlinked folder enclosing all user directories, one '..' and one '.' "
            "form stand for all such spellings; the output directory is spelled the same way but always lives at <sandbox>/out; "
            "in the location family the populated series is not run and only a fixed eighth of the already named files is mutated",
            "wall clock replaced by a constant (nunavut.jinja.datetime, gzip.time); caches reset before every CLI call",
        ],
        min_outcomes=("distinct_outcomes", 12),
    )


def replay(ctx: Ctx, case: dict) -> int:
    c = case["config"]
    sb = ctx.scratch / "replay"
    r = evaluate(c, sb, only_subject=case.get("subject", "<none>"))
    print(f"configuration {cfg_id(c)}: status={r['status']} paths={path_style(c)} cwd=<sandbox>")
    print("  nnvg " + " ".join(build_argv(c, pathlib.Path("<sandbox>"), ["<mode>"])))
    hit = 0
    for v in r["bag"].v.values():
        same = case.get("oracle") in (None, v.sig["kind"])
        print(f"  {'VIOLATION' if same else 'other violation of this configuration'} {v.sig}: {v.what}")
        hit += 1 if same else 0
    if not hit:
        print("  no violation of the recorded kind")
    return 1 if hit else 0
