"""
C01 - generated serializers emit exactly the specified wire representation (exploration; E2+E3+E4).
Every type of the bounded universe x every value of the boundary alphabet x (C any/little/big x asserts, C++14/17/20,
Python): bytes and size must equal the reference model; unrepresentable values must be refused.
"""
from __future__ import annotations

import typing

import pydsdl

from vf.codec import engine as E
from vf.codec import flat, ref, space
from vf.core import Bag, Ctx, HarnessError

REPR_ERRORS = (-10, -11, -12)


def configs(ctx: Ctx) -> typing.List[E.Config]:
    if ctx.thorough:
        return [E.C_ANY, E.C_LITTLE, E.C_BIG, E.C_ANY_ASSERT, E.C_LITTLE_ASSERT, E.C_BIG_ASSERT, E.C_LITTLE_OVERRIDE, E.CPP14, E.CPP17, E.CPP20, E.CPP14_LITTLE, E.CPP17_LITTLE_ASSERT, E.CPP17_PMR, E.PY]
    return [E.C_ANY, E.C_LITTLE, E.C_BIG_ASSERT, E.C_LITTLE_OVERRIDE, E.CPP14, E.CPP17_LITTLE_ASSERT, E.PY]


def feature(t: pydsdl.CompositeType, d: space.TypeDef) -> str:
    return d.layer + ":" + d.name[2:].split("k")[0][:14]


def classify(t: pydsdl.CompositeType, d: space.TypeDef, got: str, want: str) -> str:
    if got == "rc=-99":
        return "write_beyond_buffer"
    if got.startswith("rc="):
        return "unexpected_error"
    if len(got) != len(want):
        return "size"
    return "bytes"


def _work(job: tuple) -> dict:
    sid, defs, scratch, thorough, cfgs = job
    sh = E.Shard(sid, defs, scratch)
    bag = Bag()
    evals = 0
    nontrivial: typing.Set[typing.Tuple[str, int]] = set()
    markers: typing.Set[str] = set()
    samples = []
    try:
        plan = []  # (type index, typedef, model, value, invalid kind, tokens, expected bytes|None, py_ok)
        for ti, (d, t) in enumerate(zip(sh.mains, sh.main_models)):
            top = t.inner_type if isinstance(t, pydsdl.DelimitedType) else t
            for vi, (v, bad) in enumerate(E.ser_cases(t, storage=True)):
                toks = flat.flatten(top, v)
                try:
                    want = ref.encode_top(t, v)
                    if bad:
                        raise HarnessError("reference accepted an invalid value")
                except ref.ReprError:
                    want = None
                pyok = E.in_dsdl_range(top, v) and not bad
                plan.append((ti, d, t, v, bad, toks, want, pyok, vi))
                if want is not None and not pyok:
                    nontrivial.add((d.name, vi))  # saturation / truncation applied
                elif want is None:
                    nontrivial.add((d.name, vi))
                elif any(x for x in want):
                    nontrivial.add((d.name, vi))
            if isinstance(top, pydsdl.UnionType) and len(top.fields) < 2 ** top.tag_field_type.bit_length:  # else: every tag value the storage can hold is valid
                plan.append((ti, d, t, None, "union_tag", [str(len(top.fields))], None, False, -1))
                nontrivial.add((d.name, -1))
        for c in cfgs:
            if c.lang == "py":
                py = sh.py()
                for ti, d, t, v, bad, toks, want, pyok, vi in plan:
                    if v is None or (not pyok and not bad):
                        continue
                    st, data = py.serialize(t, v)
                    evals += 1
                    if want is None:
                        if st == "ok":
                            bag.add({"kind": "invalid_accepted", "lang": "py", "invalid": bad, "feature": feature(t, d)}, {"type": d.body, "value": repr(v), "config": c.tag}, f"py serialized unrepresentable value ({bad}) of {d.name}")
                    elif st != "ok" or data != want:
                        bag.add(
                            {"kind": "wrong_" + ("status" if st != "ok" else ("size" if len(data) != len(want) else "bytes")), "lang": "py", "feature": feature(t, d)},
                            {"type": d.body, "tokens": toks, "config": c.tag, "got": st + ":" + data.hex(), "want": want.hex()},
                            f"py {d.name} value {toks}: got {st}:{data.hex()} want {want.hex()}",
                        )
                continue
            exe = sh.build(c)
            if c.lang == "c":
                hdr = "".join((sh.outdir(c) / sh.ns / f"{d.name}_1_0.h").read_text() for d in sh.mains[:400])
                for mk in ("memmove(", "nunavutSetUxx(", "nunavutCopyBits(", "nunavutSetF16(", "_sat0_ >", "nunavutSetIxx(", "buffer[offset_bits / 8U] = "):
                    if mk in hdr:
                        markers.add(mk)
            cmds, idx = [], []
            for k, (ti, d, t, v, bad, toks, want, pyok, vi) in enumerate(plan):
                if c.lang == "cpp" and bad == "union_tag":
                    continue  # an invalid tag cannot be constructed through the variant API
                cmds.append(f"S {ti} {E.max_bytes(t)} 255 " + " ".join(toks))
                idx.append(k)
            res = sh.run_driver(exe, cmds)
            for k, r in zip(idx, res):
                ti, d, t, v, bad, toks, want, pyok, vi = plan[k]
                evals += 1
                if isinstance(r, dict):
                    rep = r.get("crash", r.get("exit_report", ""))
                    bag.add({"kind": "crash", "lang": c.lang, "what": E.san_summary(rep), "feature": feature(t, d)}, {"type": d.body, "tokens": toks, "config": c.tag, "report": rep[:1500]}, f"{c.tag} {d.name} {toks}: driver died: {E.san_summary(rep)}")
                    continue
                parts = r.split()
                rc = int(parts[1])
                if want is None:
                    if rc >= 0:
                        bag.add({"kind": "invalid_accepted", "lang": c.lang, "invalid": bad, "feature": feature(t, d)}, {"type": d.body, "tokens": toks, "config": c.tag, "got": r}, f"{c.tag} {d.name}: unrepresentable value ({bad}) serialized: {r}")
                    elif rc not in REPR_ERRORS:
                        bag.add({"kind": "invalid_wrong_error", "lang": c.lang, "invalid": bad, "rc": rc}, {"type": d.body, "tokens": toks, "config": c.tag, "got": r}, f"{c.tag} {d.name}: unrepresentable value ({bad}) gave rc={rc}")
                    continue
                got = (parts[3] if len(parts) > 3 else "") if rc >= 0 else f"rc={rc}"
                got = "" if got == "-" else got
                size_ok = rc >= 0 and int(parts[2]) == len(want)
                if rc < 0 or not size_ok or got != want.hex():
                    bag.add(
                        {"kind": "wrong_" + classify(t, d, got, want.hex()), "lang": c.lang, "feature": feature(t, d)},
                        {"type": d.body, "tokens": toks, "config": c.tag, "got": r, "want": want.hex()},
                        f"{c.tag} {d.name} value {toks}: got {r!r} want {len(want)} {want.hex()}",
                    )
        for ti, d, t, v, bad, toks, want, pyok, vi in plan[:: max(1, len(plan) // 2)][:2]:
            samples.append({"type": d.body, "tokens": toks, "expected": want.hex() if want is not None else "error:" + str(bad)})
    finally:
        sh.cleanup()
    return {"bag": bag, "evals": evals, "nontrivial": len(nontrivial), "types": len(sh.mains), "markers": markers, "samples": samples, "cases": len(plan)}


def run(ctx: Ctx) -> int:
    defs = E.select(ctx, space.universe(ctx.thorough, big=True))
    shards = E.make_shards(defs, 10 if not ctx.thorough else 24)
    cfgs = configs(ctx)
    jobs = [(i, sh, ctx.scratch, ctx.thorough, cfgs) for i, sh in enumerate(shards)]
    jobs = E.debug_filter(jobs)
    results = ctx.pool_map(_work, jobs)
    evals = sum(r["evals"] for r in results)
    markers: typing.Set[str] = set()
    for r in results:
        ctx.bag.merge(r["bag"])
        markers |= r["markers"]
        for s in r["samples"]:
            ctx.sample(s)
    need = {"memmove(", "nunavutSetUxx(", "nunavutCopyBits(", "nunavutSetF16(", "_sat0_ >", "buffer[offset_bits / 8U] = "}
    import os

    if not need <= markers and not os.environ.get("VERIF_ONLY_SHARDS"):
        # derived from the generated text (output under test): informative only
        ctx.vacuity(f"shortcuts not seen in the generated C: {sorted(need - markers)}", hard=False)
    ctx.stats.update(types=sum(r["types"] for r in results), value_cases=sum(r["cases"] for r in results), configs=[c.tag for c in cfgs], shortcuts_seen=sorted(markers))
    cov = {
        "evaluations": evals,
        "distinct_nontrivial": sum(r["nontrivial"] for r in results),
        "rule": "one evaluation = one serialization of one (type, value) under one (target, option set) compared with the "
        "reference encoder; non-trivial = distinct (type, value) whose encoding has a non-zero byte, needs "
        "saturation/truncation, or is unrepresentable",
        "bound_completed": f"{ctx.stats['types']} types (layers L1-L5; widths {'1..64' if ctx.thorough else 'quick set + seed slice'}), "
        f"{ctx.stats['value_cases']} (type, value) cases x {len(cfgs)} configurations",
        "exhaustive": bool(ctx.thorough),
    }
    return ctx.finish(
        "exploration",
        cov,
        ["PyDSDL 1.25 model and vf/codec/ref.py (reference encoder) are the trusted base", "gcc 12 / g++ 12, x86-64 little-endian host", "the cetl++14-17 flavour is not executed here (CETL submodule empty; see DESIGN); c++17-pmr runs with the default memory resource"],
        min_outcomes=("evaluations", 1000),
    )


def replay(ctx: Ctx, case: dict) -> int:
    from vf.codec.replay import replay_case

    return replay_case(ctx, case)
