"""
C05 - exported size bounds and type metadata (exploration; E2+E4).
Static half: a compiled probe per shard prints every exported macro / trait / constant of the generated C and C++ code,
Python reads class attributes; oracle = the PyDSDL model (float constants: exact rational rounded to the declared type,
within one ulp of the declared type).  Dynamic half: for every output buffer size 0..max+1 serialization succeeds iff the
buffer holds the maximum serialized size, otherwise buffer-too-small; serialized size <= buffer size <= extent.
"""
from __future__ import annotations

import importlib
import os
import re
import struct
import sys
import typing
from fractions import Fraction

import pydsdl

from vf import gen
from vf.codec import engine as E
from vf.codec import flat, glue, ref, space
from vf.core import Bag, Ctx, HarnessError


def const_defs() -> typing.List[space.TypeDef]:
    out = []
    for n in (2, 7, 8, 9, 16, 17, 32, 33, 63, 64):
        lo, hi = -(1 << (n - 1)), (1 << (n - 1)) - 1
        body = f"int{n} MIN = {lo}\nint{n} MAX = {hi}\nint{n} M1 = -1\nint{n} Z = 0\nuint{n} UMAX = {(1 << n) - 1}\nuint{n} ONE = 1\nuint8 x\n@sealed\n"
        out.append(space.TypeDef(f"KI{n}", "L5k", body, True))
    out.append(
        space.TypeDef(
            "KF16",
            "L5k",
            "float16 MAXV = 65504.0\nfloat16 MINV = -65504.0\nfloat16 TINY = 5.960464477539063e-08\nfloat16 THIRD = 1.0 / 3.0\nfloat16 TENTH = 0.1\nfloat16 ONE = 1.0\nfloat16 NEGZ = -0.0\nuint8 x\n@sealed\n",
            True,
        )
    )
    out.append(
        space.TypeDef(
            "KF32",
            "L5k",
            "float32 MAXV = 340282346638528859811704183484516925440.0\nfloat32 MINV = -340282346638528859811704183484516925440.0\nfloat32 TINY = 1e-45\nfloat32 SUBN = 1e-40\n"
            "float32 THIRD = 1.0 / 3.0\nfloat32 TENTH = 0.1\nfloat32 BIG = 1e38\nfloat32 PI = 3.141592653589793\nuint8 x\n@sealed\n",
            True,
        )
    )
    out.append(
        space.TypeDef(
            "KF64",
            "L5k",
            "float64 MAXV = 1.7976931348623157e308\nfloat64 TINY = 1e-320\nfloat64 MINSUB = 5e-324\nfloat64 SMALL = 1e-300\nfloat64 BIG = 1e300\nfloat64 THIRD = 1.0 / 3.0\n"
            "float64 TENTH = 0.1\nfloat64 NEG = -2.5e-310\nfloat64 E = 2.718281828459045\nfloat64 DMIN = 2.2250738585072014e-308\n"
            "float64 SUBD = 1.2345678901234567e-310\nfloat64 MAX3 = 1.7976931348623157e308 / 3.0\nfloat64 LONGD = 0.1234567890123456789e-305\nuint8 x\n@sealed\n",
            True,
        )
    )
    out.append(space.TypeDef("KB", "L5k", "bool T = true\nbool F = false\nuint8 CH = 'a'\nuint8 TIL = '~'\nuint8 x\n@sealed\n", True))
    return out


def service_files(ns: str) -> typing.Dict[str, str]:
    return {
        f"{ns}/430.Svc.1.0.dsdl": "uint8 A = 3\nuint8 x\n@sealed\n---\nfloat32 B = 1.0/3.0\nint8[<=4] y\n@extent 64\n",
        f"{ns}/Svu.1.1.dsdl": "@union\nuint8 a\nint13[<=2] b\n@sealed\n---\n@extent 16\n",
        f"{ns}/7509.Msg.2.3.dsdl": "uint16 KMAX = 65535\nbool[<=7] flags\nuint8[2] pair\n@extent 256\n",
        # the extreme port identifiers of both kinds (0 is falsy: a truthiness test instead of has_fixed_port_id drops it)
        f"{ns}/0.Zero.1.0.dsdl": "uint8 x\n@sealed\n",
        f"{ns}/0.ZeroSvc.1.0.dsdl": "uint8 x\n@sealed\n---\nuint8[<=2] y\n@sealed\n",
        f"{ns}/8191.MaxSub.1.0.dsdl": "@union\nuint8 a\nbool b\n@extent 16\n",
        f"{ns}/511.MaxSvc.1.0.dsdl": "@sealed\n---\nuint8 x\n@extent 8\n",
    }


# ------------------------------------------------------------------------------------------------ expectations
def expectations(t: pydsdl.CompositeType, name: str) -> typing.Dict[str, typing.Any]:
    """key -> expected value for one (non-service) composite; name = glue.c_name style prefix"""
    inner = t.inner_type if isinstance(t, pydsdl.DelimitedType) else t
    exp: typing.Dict[str, typing.Any] = {
        "EXTENT": t.extent // 8,
        "BUFSIZE": (inner.bit_length_set.max + 7) // 8,
        "FULL_NAME": t.full_name,
        "FULL_NAME_AND_VERSION": f"{t.full_name}.{t.version.major}.{t.version.minor}",
    }
    # the request and response of a service carry the port id of the service definition
    port_owner = _PORT_OWNER.get(id(t), t)
    exp["HAS_PORT"] = 1 if port_owner.has_fixed_port_id else 0
    if port_owner.has_fixed_port_id:
        exp["PORT"] = port_owner.fixed_port_id
    if isinstance(inner, pydsdl.UnionType):
        exp["UNION_COUNT"] = len(inner.fields)
    for f in inner.fields:
        if isinstance(f.data_type, pydsdl.ArrayType) and not isinstance(f, pydsdl.PaddingField):
            exp[f"CAP:{f.name}"] = f.data_type.capacity
            exp[f"VAR:{f.name}"] = 1 if isinstance(f.data_type, pydsdl.VariableLengthArrayType) else 0
    for c in t.constants:
        exp[f"K:{c.name}"] = c
    return exp


_PORT_OWNER: typing.Dict[int, pydsdl.CompositeType] = {}
_SERVICE_FILE_NAMES = {k.split("/")[-1].split(".")[-4] for k in service_files("x")}


def composites_of(types: typing.Sequence[pydsdl.CompositeType]) -> typing.List[typing.Tuple[pydsdl.CompositeType, str, str, str]]:
    """(model, c prefix, c++ qualified name, python access path) incl. request/response of services"""
    out = []
    for t in types:
        v = f"_{t.version.major}_{t.version.minor}"
        if isinstance(t, pydsdl.ServiceType):
            base_c = t.full_name.replace(".", "_")
            base_cpp = "::".join(t.full_name.split("."))
            for part, m in (("Request", t.request_type), ("Response", t.response_type)):
                _PORT_OWNER[id(m)] = t
                out.append((m, f"{base_c}_{part}{v}", f"{base_cpp}::{part}{v}", f"{t.short_name}{v}.{part}"))
        else:
            out.append((t, glue.c_name(t), glue.cpp_name(t), f"{t.short_name}{v}"))
    return out


def c_probe(items: typing.Sequence[tuple], includes: typing.Sequence[str], cpp: bool) -> str:
    L = [f'#include "{i}"' for i in includes] + ["#include <stdio.h>", "#include <string.h>", "#include <stdint.h>"]
    L.append('#define P_INT(T, K, X) do { if ((X) < 0) { printf("M %s %s -%llu\\n", T, K, (unsigned long long) (-((X) + 1)) + 1ULL); } else { printf("M %s %s %llu\\n", T, K, (unsigned long long) (X)); } } while (0)')
    L.append('#define P_F32(T, K, X) do { const float f_ = (X); uint32_t u_; memcpy(&u_, &f_, 4); printf("M %s %s x%08x %d\\n", T, K, (unsigned) u_, (int) sizeof(X)); } while (0)')
    L.append('#define P_F64(T, K, X) do { const double f_ = (X); uint64_t u_; memcpy(&u_, &f_, 8); printf("M %s %s X%016llx %d\\n", T, K, (unsigned long long) u_, (int) sizeof(X)); } while (0)')
    L.append('#define P_STR(T, K, X) printf("M %s %s %s\\n", T, K, X)')
    L.append("int main(void) {")
    for t, cn, cppn, _py in items:
        exp = expectations(t, cn)
        q = f'"{cn}"'
        for key, want in exp.items():
            if cpp:
                tr = f"{cppn}::_traits_"
                if key == "EXTENT":
                    L.append(f'    P_INT({q}, "{key}", {tr}::ExtentBytes);')
                elif key == "BUFSIZE":
                    L.append(f'    P_INT({q}, "{key}", {tr}::SerializationBufferSizeBytes);')
                elif key == "HAS_PORT":
                    L.append(f'    P_INT({q}, "{key}", {tr}::HasFixedPortID ? 1 : 0);')
                elif key == "PORT":
                    L.append(f'    P_INT({q}, "{key}", {tr}::FixedPortId);')
                elif key == "UNION_COUNT":
                    L.append(f'    P_INT({q}, "{key}", {cppn}::VariantType::MAX_INDEX);')
                elif key.startswith("K:"):
                    c = want
                    acc = f"{cppn}::{c.name}"
                    if isinstance(c.data_type, pydsdl.FloatType):
                        L.append(f'    P_F{64 if c.data_type.bit_length == 64 else 32}({q}, "{key}", {acc});')
                    elif isinstance(c.data_type, pydsdl.BooleanType):
                        L.append(f'    P_INT({q}, "{key}", {acc} ? 1 : 0);')
                    else:
                        L.append(f'    P_INT({q}, "{key}", {acc});')
            else:
                if key == "EXTENT":
                    L.append(f'    P_INT({q}, "{key}", {cn}_EXTENT_BYTES_);')
                elif key == "BUFSIZE":
                    L.append(f'    P_INT({q}, "{key}", {cn}_SERIALIZATION_BUFFER_SIZE_BYTES_);')
                elif key == "FULL_NAME":
                    L.append(f'    P_STR({q}, "{key}", {cn}_FULL_NAME_);')
                elif key == "FULL_NAME_AND_VERSION":
                    L.append(f'    P_STR({q}, "{key}", {cn}_FULL_NAME_AND_VERSION_);')
                elif key.startswith("CAP:"):
                    L.append(f'    P_INT({q}, "{key}", {cn}_{key[4:]}_ARRAY_CAPACITY_);')
                elif key.startswith("VAR:"):
                    L.append(f'    P_INT({q}, "{key}", {cn}_{key[4:]}_ARRAY_IS_VARIABLE_LENGTH_ ? 1 : 0);')
                elif key == "UNION_COUNT":
                    L.append(f'    P_INT({q}, "{key}", {cn}_UNION_OPTION_COUNT_);')
                elif key.startswith("K:"):
                    c = want
                    acc = f"{cn}_{c.name}"
                    if isinstance(c.data_type, pydsdl.FloatType):
                        L.append(f'    P_F{64 if c.data_type.bit_length == 64 else 32}({q}, "{key}", {acc});')
                    elif isinstance(c.data_type, pydsdl.BooleanType):
                        L.append(f'    P_INT({q}, "{key}", {acc} ? 1 : 0);')
                    else:
                        L.append(f'    P_INT({q}, "{key}", {acc});')
    L.append("    return 0;\n}")
    return "\n".join(L) + "\n"


def check_value(key: str, want: typing.Any, got: str) -> typing.Optional[str]:
    """None if ok else description"""
    if key.startswith("K:"):
        c = want
        if isinstance(c.data_type, pydsdl.FloatType):
            bits = c.data_type.bit_length
            q = Fraction(c.value.native_value)
            exp_bits = ref.fraction_to_bits(q, bits)
            try:
                expq = ref.bits_to_fraction(exp_bits, bits)
            except ValueError:
                return f"reference overflow for {q}"
            tok = got.split()[0]
            val = flat.tokf(tok) if tok[0] in "xX" else float(tok)
            if val != val or val in (float("inf"), float("-inf")):
                return f"got {val!r}, want about {float(expq)!r}"
            diff = abs(Fraction(val) - expq)
            if diff > ref.ulp_at(expq, bits):
                return f"got {val!r} ({tok}), want {float(expq)!r} +- 1 ulp of float{bits}"
            return None
        if isinstance(c.data_type, pydsdl.BooleanType):
            w = 1 if c.value.native_value else 0
        else:
            w = int(c.value.native_value)
        return None if got.split()[0] == str(w) else f"got {got}, want {w}"
    return None if got == str(want) else f"got {got!r}, want {want!r}"


# ------------------------------------------------------------------------------------------------ worker
def _work(job: tuple) -> dict:
    sid, defs, scratch, thorough, cfgs, with_services = job
    sh = E.Shard(sid, defs, scratch)
    bag = Bag()
    evals = 0
    nontrivial = 0
    samples = []
    try:
        if with_services:
            gen.write_ns(sh.src, service_files(sh.ns))
            types = pydsdl.read_namespace(str(sh.src / sh.ns), [], allow_unregulated_fixed_port_id=True)
            sh.all_types = list(types)
            sh.models = {t.short_name: t for t in types}
        static_types = [t for t in sh.all_types if t.short_name in {d.name for d in sh.mains} or t.short_name in _SERVICE_FILE_NAMES]
        items = composites_of(static_types)
        for c in cfgs:
            if c.lang == "py":
                out = sh.generate(c)
                if str(out) not in sys.path:
                    sys.path.insert(0, str(out))
                importlib.invalidate_caches()
                mod = importlib.import_module(sh.ns)
                for t, cn, cppn, pyp in items:
                    obj = mod
                    for part in pyp.split("."):
                        obj = getattr(obj, part)
                    exp = expectations(t, cn)
                    for key, want in exp.items():
                        if key == "EXTENT":
                            got = str(getattr(obj, "_EXTENT_BYTES_"))
                        elif key == "PORT":
                            got = str(getattr(obj, "_FIXED_PORT_ID_", "<not exported>"))
                        elif key == "HAS_PORT":
                            got = "1" if getattr(obj, "_FIXED_PORT_ID_", None) is not None else "0"
                        elif key.startswith("K:"):
                            v = getattr(obj, want.name)
                            got = repr(float(v)) if isinstance(want.data_type, pydsdl.FloatType) else str(int(v))
                        else:
                            continue
                        evals += 1
                        bad = check_value(key, want, got)
                        if bad:
                            bag.add({"kind": "metadata", "lang": "py", "key": key.split(":")[0], "what": _feature(key, want)}, {"type": _body(sh, t), "key": key, "config": c.tag, "detail": bad}, f"py {cn} {key}: {bad}")
                continue
            cpp = c.lang == "cpp"
            out = sh.generate(c)
            ext = ".hpp" if cpp else ".h"
            src = sh.dir / f"probe_{c.tag}.{'cpp' if cpp else 'c'}"
            src.write_text(c_probe(items, [glue.include_path(t, ext) for t in static_types], cpp))
            exe = sh.dir / f"probe_{c.tag}"
            std = c.opts.get("std", "c++14") if cpp else "c11"
            adef = ["-DNUNAVUT_ASSERT=assert", "-include", "cassert" if cpp else "assert.h"] if c.opts.get("enable_serialization_asserts") else []
            p = gen.run_cmd(["g++" if cpp else "gcc", f"-std={std}", "-O0", "-w"] + adef + ["-I", str(out), str(src), "-o", str(exe), "-lm"])
            if p.returncode != 0:
                raise HarnessError(f"probe build failed [{c.tag}]:\n{p.stdout[-2500:]}")
            txt = gen.must([str(exe)], "probe")
            got_map: typing.Dict[typing.Tuple[str, str], str] = {}
            for ln in txt.splitlines():
                if ln.startswith("M "):
                    _, tn, key, rest = ln.split(" ", 3)
                    got_map[(tn, key)] = rest
            for t, cn, cppn, pyp in items:
                exp = expectations(t, cn)
                for key, want in exp.items():
                    if (cn, key) not in got_map:
                        continue
                    evals += 1
                    if key.startswith("K:") or key in ("PORT", "UNION_COUNT") or key.startswith("CAP"):
                        nontrivial += 1
                    bad = check_value(key, want, got_map[(cn, key)])
                    if bad:
                        bag.add({"kind": "metadata", "lang": c.lang, "key": key.split(":")[0], "what": _feature(key, want)}, {"type": _body(sh, t), "key": key, "config": c.tag, "detail": bad}, f"{c.tag} {cn} {key}: {bad}")
            # ---- dynamic half
            codec_types = [(d, t) for d, t in zip(sh.mains, sh.main_models) if d.layer != "L5k"]
            if not codec_types:
                continue
            exe = sh.build(c)
            cmds, meta = [], []
            for ti, (d, t) in enumerate(zip(sh.mains, sh.main_models)):
                if d.layer == "L5k":
                    continue
                top = t.inner_type if isinstance(t, pydsdl.DelimitedType) else t
                mb = E.max_bytes(t)
                vals = [v for v, bad in E.ser_cases(t, storage=False) if not bad]
                picks = [vals[0], vals[-1]] if len(vals) > 1 else vals
                longest = max(vals, key=lambda v: len(ref.encode_top(t, v)))
                for v in {id(x): x for x in picks + [longest]}.values():
                    toks = " ".join(flat.flatten(top, v))
                    for bs in range(0, mb + 2):
                        cmds.append(f"S {ti} {bs} 90 {toks}")
                        meta.append((d, t, bs, mb, len(ref.encode_top(t, v))))
            res = sh.run_driver(exe, cmds)
            for (d, t, bs, mb, enc_len), r in zip(meta, res):
                evals += 1
                nontrivial += 1
                if isinstance(r, dict):
                    rep = r.get("crash", r.get("exit_report", ""))
                    bag.add({"kind": "crash", "lang": c.lang, "what": E.san_summary(rep)}, {"type": d.body, "config": c.tag, "bufsize": bs, "report": rep[:1500]}, f"{c.tag} {d.name} bufsize {bs}: {E.san_summary(rep)}")
                    continue
                parts = r.split()
                rc = int(parts[1])
                if rc == -99:
                    bag.add({"kind": "write_beyond_buffer", "lang": c.lang}, {"type": d.body, "config": c.tag, "bufsize": bs, "max": mb, "line": r}, f"{c.tag} {d.name}: serialization into a buffer of {bs} bytes (advertised size {mb}) wrote behind the buffer (guard bytes overwritten)")
                    continue
                if bs >= mb:
                    if rc != 0:
                        bag.add({"kind": "sufficient_buffer_refused", "lang": c.lang, "rc": rc}, {"type": d.body, "config": c.tag, "bufsize": bs, "max": mb, "line": r}, f"{c.tag} {d.name}: buffer of {bs} >= advertised {mb} bytes refused rc={rc}")
                    elif int(parts[2]) > mb or int(parts[2]) > t.extent // 8:
                        bag.add({"kind": "size_exceeds_bound", "lang": c.lang}, {"type": d.body, "config": c.tag, "line": r, "max": mb, "extent": t.extent // 8}, f"{c.tag} {d.name}: serialized size {parts[2]} > advertised buffer size {mb} / extent {t.extent // 8}")
                elif rc != -3:
                    bag.add({"kind": "small_buffer_not_refused", "lang": c.lang, "rc": rc}, {"type": d.body, "config": c.tag, "bufsize": bs, "max": mb, "line": r}, f"{c.tag} {d.name}: buffer of {bs} < max {mb} bytes gave rc={rc} (want buffer-too-small)")
        if items:
            t, cn, _, _ = items[0]
            samples.append({"type": cn, "expected": {k: (str(v.value.native_value) if k.startswith("K:") else v) for k, v in list(expectations(t, cn).items())[:8]}})
    finally:
        sh.cleanup()
    return {"bag": bag, "evals": evals, "nontrivial": nontrivial, "types": len(items), "samples": samples}


def _feature(key: str, want: typing.Any) -> str:
    if key.startswith("K:"):
        c = want
        dt = c.data_type
        kind = "float" if isinstance(dt, pydsdl.FloatType) else ("bool" if isinstance(dt, pydsdl.BooleanType) else ("int" if isinstance(dt, pydsdl.SignedIntegerType) else "uint"))
        return f"{kind}{dt.bit_length}:{c.name}"
    return key.split(":")[0]


def _body(sh: E.Shard, t: pydsdl.CompositeType) -> str:
    try:
        return pathlib_read(t)
    except Exception:  # pylint: disable=broad-except
        return t.full_name


def pathlib_read(t: pydsdl.CompositeType) -> str:
    p = _PORT_OWNER.get(id(t), t).source_file_path
    return open(p, "r", encoding="utf-8").read()


def configs(ctx: Ctx) -> typing.List[E.Config]:
    if ctx.thorough:
        return [E.C_ANY, E.C_LITTLE_ASSERT, E.C_BIG, E.CPP14, E.CPP17, E.CPP20, E.PY]
    return [E.C_LITTLE, E.CPP14, E.CPP17_LITTLE_ASSERT, E.PY]


def run(ctx: Ctx) -> int:
    uni = E.select(ctx, space.universe(ctx.thorough))
    if not ctx.thorough:
        uni = [d for d in uni if d.layer == "L3i" or d.core]
    shards = E.make_shards(uni, 12 if not ctx.thorough else 24)
    cfgs = configs(ctx)
    jobs = [(i, sh, ctx.scratch, ctx.thorough, cfgs, False) for i, sh in enumerate(shards)]
    jobs.append((800, const_defs(), ctx.scratch, ctx.thorough, cfgs, True))
    jobs = E.debug_filter(jobs)
    results = ctx.pool_map(_work, jobs)
    for r in results:
        ctx.bag.merge(r["bag"])
        for s in r["samples"]:
            ctx.sample(s)
    ctx.stats.update(composites=sum(r["types"] for r in results), configs=[c.tag for c in cfgs])
    cov = {
        "evaluations": sum(r["evals"] for r in results),
        "distinct_nontrivial": sum(r["nontrivial"] for r in results),
        "rule": "one evaluation = one exported constant compared with the PyDSDL model, or one serialization into a buffer of one "
        "size; non-trivial = constants, port ids, capacities, option counts, and every buffer-size case",
        "bound_completed": f"{ctx.stats['composites']} composites (incl. service request/response, explicit @extent, constants of every "
        f"primitive kind at extreme magnitudes) x {len(cfgs)} configurations; output buffer sizes 0..max+1 for 3 values per type",
        "exhaustive": bool(ctx.thorough),
    }
    return ctx.finish("exploration", cov, ["PyDSDL 1.25 model is the oracle; float constants within 1 ulp of the declared type", "probes compiled with gcc 12 (-w: diagnostics are C06's subject)"], min_outcomes=("evaluations", 500))


def replay(ctx: Ctx, case: dict) -> int:
    from vf.codec.replay import replay_case

    return replay_case(ctx, case)
