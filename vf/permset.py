"""
permset - the *permuting set* and the deviation-bounded scheduler (engine E1 "choices"), plus the ambient seams
(clock) shared by C07 and C10.

Idea.  nunavut keeps several hash-ordered collections (``Namespace._nested_namespaces``,
``Dependencies.composite_types``, the namespace index of ``build_namespace_tree``, the language map of
``LanguageContextBuilder._new_language_map`` ...).  All of them are built with the *name* ``set``, which the
modules resolve through their globals before falling back to builtins.  ``install()`` binds the name ``set`` in the
globals of every loaded ``nunavut.*`` module (the bundled jinja2/markupsafe excluded) to :class:`PermSet`.  Every
``__iter__`` of a PermSet with >= 2 elements is a **choice point**: the active :class:`Scheduler` picks which
permutation of the canonical (sorted by a stable key) order is produced.  The explorer (``expand``) enumerates
schedules with 0, 1, 2 ... deviations from the default (alternative 0 = canonical order) - stateless exploration:
each schedule is executed from scratch and identified by its deviation list ``((index, arity, alternative), ...)``.
Replaying a schedule whose recorded arities do not match what the execution presents is a hard error.

Set *literals / comprehensions* cannot be intercepted this way (they compile to BUILD_SET); see the list in
``vf/checks/c07.py`` - they are guarded by the cross-process PYTHONHASHSEED runs there.
"""
from __future__ import annotations

import contextlib
import datetime as _real_datetime
import importlib
import itertools
import sys
import time as _real_time
import typing

from vf.core import HarnessError

_builtin_set = set

EXCLUDED_PREFIXES = ("nunavut.jinja.jinja2", "nunavut.jinja.markupsafe")
NUNAVUT_MODULES = (
    "nunavut",
    "nunavut.jinja",
    "nunavut.jinja.environment",
    "nunavut.jinja.extensions",
    "nunavut.jinja.loaders",
    "nunavut.lang",
    "nunavut.lang.c",
    "nunavut.lang.cpp",
    "nunavut.lang.py",
    "nunavut.lang.html",
    "nunavut.lang.js",
    "nunavut.cli",
    "nunavut.cli.runners",
    "nunavut.lang.c.support",
    "nunavut.lang.cpp.support",
    "nunavut.lang.py.support",
)

FULL_MAX = 4  # sets of up to FULL_MAX elements: all n! permutations are alternatives


# ------------------------------------------------------------------------------------------ permutations
def _perm_table(n: int) -> typing.List[typing.Tuple[int, ...]]:
    return list(itertools.permutations(range(n)))  # lexicographic; index 0 = identity


_PERMS: typing.Dict[int, typing.List[typing.Tuple[int, ...]]] = {n: _perm_table(n) for n in range(2, FULL_MAX + 1)}
_PERM_INDEX = {n: {p: i for i, p in enumerate(t)} for n, t in _PERMS.items()}


def arity_of(n: int) -> int:
    """Number of alternatives offered for a set of n elements."""
    if n <= FULL_MAX:
        return len(_PERMS[n])
    return n + 2  # identity, reversal, n-1 adjacent transpositions, rotation by one (a CAP - see is_capped)


def is_capped(n: int) -> bool:
    return n > FULL_MAX


def permutation(n: int, alt: int) -> typing.Tuple[int, ...]:
    if n <= FULL_MAX:
        return _PERMS[n][alt]
    ident = list(range(n))
    if alt == 0:
        return tuple(ident)
    if alt == 1:
        return tuple(reversed(ident))
    if alt <= n:
        i = alt - 2
        ident[i], ident[i + 1] = ident[i + 1], ident[i]
        return tuple(ident)
    if alt == n + 1:
        return tuple(ident[1:] + ident[:1])
    raise HarnessError(f"alternative {alt} out of range for a set of {n}")


def light_alternatives(n: int) -> typing.List[int]:
    """Adjacent transpositions + reversal (the restricted family allowed at the two-deviation level)."""
    if n > FULL_MAX:
        return list(range(1, n + 1))
    out = []
    for i in range(n - 1):
        p = list(range(n))
        p[i], p[i + 1] = p[i + 1], p[i]
        out.append(_PERM_INDEX[n][tuple(p)])
    rev = _PERM_INDEX[n][tuple(reversed(range(n)))]
    if rev not in out:
        out.append(rev)
    return sorted(out)


# ------------------------------------------------------------------------------------------ scheduler
class ChoicePoint(typing.NamedTuple):
    n: int  # size of the set
    arity: int  # alternatives offered
    alt: int  # alternative taken
    site: str  # nunavut function that iterated


Deviation = typing.Tuple[int, int, int]  # (choice index, expected arity, alternative)


class Scheduler:
    """
    One execution = one Scheduler.  `deviations` force alternatives at given choice indices (everything else takes
    alternative 0 = canonical order).  `expect` is the arity prefix recorded by the parent execution: every choice
    point with index < len(expect) must present exactly that arity, else HarnessError.
    `site_filter` restricts which iterations are choice points at all (others iterate canonically, unrecorded).
    """

    def __init__(
        self,
        deviations: typing.Sequence[Deviation] = (),
        expect: typing.Sequence[int] = (),
        site_filter: typing.Optional[typing.Callable[[str], bool]] = None,
    ) -> None:
        self.dev = {int(i): (int(a), int(alt)) for i, a, alt in deviations}
        if len(self.dev) != len(deviations):
            raise HarnessError("duplicate choice index in schedule")
        self.expect = list(expect)
        self.site_filter = site_filter
        self.trace: typing.List[ChoicePoint] = []

    def choose(self, n: int, site: str) -> typing.Optional[int]:
        if self.site_filter is not None and not self.site_filter(site):
            return None
        idx = len(self.trace)
        arity = arity_of(n)
        if idx < len(self.expect) and self.expect[idx] != arity:
            raise HarnessError(
                f"schedule replay diverged: choice point {idx} ({site}) has arity {arity}, recorded {self.expect[idx]}"
            )
        alt = 0
        if idx in self.dev:
            want_arity, alt = self.dev[idx]
            if want_arity != arity:
                raise HarnessError(
                    f"schedule replay diverged: deviation at choice point {idx} ({site}) expects arity {want_arity}, "
                    f"execution presents {arity}"
                )
            if not 0 <= alt < arity:
                raise HarnessError(f"alternative {alt} out of range at choice point {idx} (arity {arity})")
        self.trace.append(ChoicePoint(n, arity, alt, site))
        return alt

    def finish(self) -> typing.List[ChoicePoint]:
        """Every requested deviation must have been reached."""
        missing = [i for i in self.dev if i >= len(self.trace)]
        if missing:
            raise HarnessError(f"schedule replay diverged: choice point(s) {missing} never reached ({len(self.trace)} seen)")
        return self.trace


_active: typing.Optional[Scheduler] = None


@contextlib.contextmanager
def scheduled(s: typing.Optional[Scheduler]) -> typing.Iterator[typing.Optional[Scheduler]]:
    global _active  # pylint: disable=global-statement
    old, _active = _active, s
    try:
        yield s
    finally:
        _active = old


def expand(
    dev: typing.Tuple[Deviation, ...], trace: typing.Sequence[ChoicePoint], light: bool = False
) -> typing.List[typing.Tuple[Deviation, ...]]:
    """All schedules with exactly one more deviation than `dev`, placed after dev's last deviation, given the trace
    the execution of `dev` produced.  light=True: only adjacent transpositions + reversal at the new point."""
    last = dev[-1][0] if dev else -1
    out = []
    for j in range(last + 1, len(trace)):
        cp = trace[j]
        alts = light_alternatives(cp.n) if light else range(1, cp.arity)
        for alt in alts:
            out.append(dev + ((j, cp.arity, alt),))
    return out


def arities(trace: typing.Sequence[ChoicePoint]) -> typing.List[int]:
    return [cp.arity for cp in trace]


# ------------------------------------------------------------------------------------------ the permuting set
def stable_key(x: typing.Any) -> typing.Tuple[str, str]:
    """A total order that does not depend on hashes or addresses."""
    if isinstance(x, str):
        return ("str", x)
    if isinstance(x, type):
        return ("type", f"{x.__module__}.{x.__qualname__}")
    t = type(x)
    if t.__str__ is object.__str__ and t.__repr__ is object.__repr__:
        raise HarnessError(f"permuting set holds {t.__name__} objects for which no stable ordering key is known")
    return (t.__name__, str(x))


def _site() -> str:
    f: typing.Any = sys._getframe(2)  # pylint: disable=protected-access
    depth = 0
    while f is not None and depth < 60:
        fn = f.f_code.co_filename
        if fn.endswith(".j2"):
            return "template:" + fn.rsplit("/", 1)[-1]
        name = f.f_globals.get("__name__") or ""
        if (name == "nunavut" or name.startswith("nunavut.")) and not name.startswith(EXCLUDED_PREFIXES):
            return f"{name}:{f.f_code.co_qualname}"
        f = f.f_back
        depth += 1
    return "<outside nunavut>"


class PermSet(set):  # type: ignore[type-arg]
    """A set whose iteration order is chosen by the active Scheduler (canonical sorted order without one)."""

    def _canonical(self) -> typing.List[typing.Any]:
        items = list(_builtin_set.__iter__(self))
        if len(items) < 2:
            return items
        keyed = sorted(((stable_key(x), x) for x in items), key=lambda kv: kv[0])
        for a, b in zip(keyed, keyed[1:]):
            if a[0] == b[0]:
                raise HarnessError(f"permuting set: two elements share the ordering key {a[0]!r}")
        return [x for _, x in keyed]

    def __iter__(self) -> typing.Iterator[typing.Any]:
        items = self._canonical()
        n = len(items)
        if n >= 2 and _active is not None:
            alt = _active.choose(n, _site())
            if alt:
                items = [items[i] for i in permutation(n, alt)]
        return iter(items)

    def pop(self) -> typing.Any:
        for x in self:  # a scheduled choice of the element
            _builtin_set.remove(self, x)
            return x
        raise KeyError("pop from an empty set")

    # set algebra on a subclass returns plain `set`; keep the results permuting
    def _wrap(self, r: typing.Any) -> typing.Any:
        return PermSet(r) if isinstance(r, _builtin_set) and not isinstance(r, PermSet) else r

    def __sub__(self, o: typing.Any) -> typing.Any:
        return self._wrap(_builtin_set.__sub__(self, o))

    def __rsub__(self, o: typing.Any) -> typing.Any:
        return self._wrap(_builtin_set.__rsub__(self, o))

    def __or__(self, o: typing.Any) -> typing.Any:
        return self._wrap(_builtin_set.__or__(self, o))

    __ror__ = __or__

    def __and__(self, o: typing.Any) -> typing.Any:
        return self._wrap(_builtin_set.__and__(self, o))

    __rand__ = __and__

    def __xor__(self, o: typing.Any) -> typing.Any:
        return self._wrap(_builtin_set.__xor__(self, o))

    __rxor__ = __xor__

    def difference(self, *o: typing.Any) -> typing.Any:
        return self._wrap(_builtin_set.difference(self, *o))

    def union(self, *o: typing.Any) -> typing.Any:
        return self._wrap(_builtin_set.union(self, *o))

    def intersection(self, *o: typing.Any) -> typing.Any:
        return self._wrap(_builtin_set.intersection(self, *o))

    def symmetric_difference(self, o: typing.Any) -> typing.Any:
        return self._wrap(_builtin_set.symmetric_difference(self, o))

    def copy(self) -> typing.Any:
        return PermSet(_builtin_set.copy(self))

    def __reduce__(self) -> typing.Any:  # pickled/copied as a plain list of canonical order
        return (PermSet, (self._canonical(),))


def nunavut_modules() -> typing.List[typing.Any]:
    for name in NUNAVUT_MODULES:
        try:
            importlib.import_module(name)
        except ImportError as e:  # pragma: no cover
            raise HarnessError(f"cannot import {name}: {e}") from e
    mods = []
    for name in sorted(sys.modules):
        mod = sys.modules[name]
        if mod is None or not (name == "nunavut" or name.startswith("nunavut.")):
            continue
        if name.startswith(EXCLUDED_PREFIXES):
            continue
        mods.append(mod)
    return mods


def install() -> int:
    """Bind the name `set` to PermSet in every loaded nunavut module. Returns the number of modules touched."""
    mods = nunavut_modules()
    for mod in mods:
        mod.__dict__["set"] = PermSet
    if len(mods) < 15:
        raise HarnessError(f"permuting set installed into only {len(mods)} nunavut modules")
    return len(mods)


def uninstall() -> None:
    for mod in nunavut_modules():
        if mod.__dict__.get("set") is PermSet:
            del mod.__dict__["set"]


# ------------------------------------------------------------------------------------------ clock seam
CLOCKS: typing.Dict[str, _real_datetime.datetime] = {
    "epoch": _real_datetime.datetime(1970, 1, 1, 0, 0, 0),
    "2024": _real_datetime.datetime(2024, 2, 29, 12, 34, 56, 789012),
    "2024+1s": _real_datetime.datetime(2024, 2, 29, 12, 34, 57, 789012),
    "9999": _real_datetime.datetime(9999, 12, 31, 23, 59, 59, 999999),
}


class _Clock:
    value: _real_datetime.datetime = CLOCKS["2024"]
    reads = 0

    @classmethod
    def now(cls) -> _real_datetime.datetime:
        cls.reads += 1
        return cls.value

    @classmethod
    def epoch_seconds(cls) -> float:
        cls.reads += 1
        return (cls.value - _real_datetime.datetime(1970, 1, 1)).total_seconds()


class _FakeDatetimeType(type(_real_datetime.datetime)):  # type: ignore[misc]
    def __instancecheck__(cls, inst: typing.Any) -> bool:
        return isinstance(inst, _real_datetime.datetime)


class _FakeDatetime(_real_datetime.datetime, metaclass=_FakeDatetimeType):
    """datetime.datetime whose clock reads come from the explorer; values it returns are real datetime objects."""

    @classmethod
    def utcnow(cls) -> _real_datetime.datetime:  # type: ignore[override]
        return _Clock.now()

    @classmethod
    def now(cls, tz: typing.Any = None) -> _real_datetime.datetime:  # type: ignore[override]
        v = _Clock.now()
        return v if tz is None else v.replace(tzinfo=_real_datetime.timezone.utc).astimezone(tz)

    @classmethod
    def today(cls) -> _real_datetime.datetime:  # type: ignore[override]
        return _Clock.now()


class _FakeModule:
    def __init__(self, real: typing.Any, **over: typing.Any) -> None:
        self.__dict__["_real"] = real
        self.__dict__.update(over)

    def __getattr__(self, name: str) -> typing.Any:
        return getattr(self.__dict__["_real"], name)


def _fake_time_module() -> _FakeModule:
    def _time() -> float:
        return _Clock.epoch_seconds()

    def _time_ns() -> int:
        return int(_Clock.epoch_seconds() * 1_000_000_000)

    def _gmtime(secs: typing.Optional[float] = None) -> typing.Any:
        return _real_time.gmtime(_Clock.epoch_seconds() if secs is None else secs)

    def _strftime(fmt: str, t: typing.Any = None) -> str:
        return _real_time.strftime(fmt, _gmtime() if t is None else t)

    return _FakeModule(
        _real_time, time=_time, time_ns=_time_ns, gmtime=_gmtime, localtime=_gmtime, strftime=_strftime
    )


_FAKE_DATETIME = _FakeModule(_real_datetime, datetime=_FakeDatetime)
_FAKE_TIME = _fake_time_module()


def install_clock() -> typing.List[str]:
    """
    Replace the names `datetime` / `time` (when bound to the real modules) in every nunavut module and the `time`
    seen by `gzip` (used by nunavut.lang.py.filter_pickle -> gzip.compress header mtime).  Returns the seams installed.
    """
    import gzip  # pylint: disable=import-outside-toplevel

    seams = []
    for mod in nunavut_modules():
        d = mod.__dict__
        if d.get("datetime") is _real_datetime:
            d["datetime"] = _FAKE_DATETIME
            seams.append(f"{mod.__name__}.datetime")
        elif d.get("datetime") is _real_datetime.datetime:
            d["datetime"] = _FakeDatetime
            seams.append(f"{mod.__name__}.datetime(class)")
        if d.get("time") is _real_time:
            d["time"] = _FAKE_TIME
            seams.append(f"{mod.__name__}.time")
    if gzip.__dict__.get("time") is _real_time:
        gzip.__dict__["time"] = _FAKE_TIME
        seams.append("gzip.time")
    return seams


def uninstall_clock() -> None:
    import gzip  # pylint: disable=import-outside-toplevel

    for mod in nunavut_modules():
        d = mod.__dict__
        if d.get("datetime") is _FAKE_DATETIME:
            d["datetime"] = _real_datetime
        elif d.get("datetime") is _FakeDatetime:
            d["datetime"] = _real_datetime.datetime
        if d.get("time") is _FAKE_TIME:
            d["time"] = _real_time
    if gzip.__dict__.get("time") is _FAKE_TIME:
        gzip.__dict__["time"] = _real_time


def set_clock(name: str) -> None:
    _Clock.value = CLOCKS[name]


def clock_reads() -> int:
    return _Clock.reads


def tree_stamp() -> str:
    """Fingerprint (paths, sizes, mtimes) of the nunavut sources under test; a run whose stamp changes between start
    and end compared executions of two different trees and is void (HarnessError), not a verdict."""
    import hashlib  # pylint: disable=import-outside-toplevel

    from vf.core import REPO  # pylint: disable=import-outside-toplevel

    h = hashlib.sha256()
    n = 0
    for p in sorted((REPO / "src" / "nunavut").rglob("*")):
        if p.is_file() and "__pycache__" not in p.parts:
            st = p.stat()
            h.update(f"{p}|{st.st_size}|{st.st_mtime_ns}\n".encode())
            n += 1
    if n < 50:
        raise HarnessError(f"only {n} source files found under {REPO}/src/nunavut")
    return h.hexdigest()[:16]


def assert_tree_unchanged(stamp: str) -> None:
    if tree_stamp() != stamp:
        raise HarnessError("the nunavut tree under test changed while the check was running; results are void, re-run")


__all__ = [
    "PermSet",
    "Scheduler",
    "ChoicePoint",
    "scheduled",
    "expand",
    "arities",
    "install",
    "uninstall",
    "install_clock",
    "uninstall_clock",
    "set_clock",
    "CLOCKS",
    "light_alternatives",
    "is_capped",
]
