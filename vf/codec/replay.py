"""Replays one recorded codec case (C01..C05) on the current tree without the explorer: rebuilds the single type, runs the
one operation under the recorded configuration, prints implementation result and reference result."""
from __future__ import annotations

import typing

import pydsdl

from vf.codec import engine as E
from vf.codec import flat, ref, space
from vf.core import Ctx, HarnessError


def _all_defs() -> typing.List[space.TypeDef]:
    from vf.checks import c04, c05

    return list(space.universe(True, big=True)) + c04.override_defs() + c05.const_defs()


def _config(tag: str) -> E.Config:
    base = tag.split("-san")[0]
    for v in vars(E).values():
        if isinstance(v, E.Config) and v.tag == base:
            c = v
            if "-san" in tag:
                c = E.san(v, "clang" if tag.endswith("clang") else "")
            return c
    raise HarnessError(f"unknown configuration tag {tag!r}")


def replay_case(ctx: Ctx, case: dict) -> int:
    defs = _all_defs()
    byname = {d.name: d for d in defs}
    d = next((x for x in defs if x.body == case.get("type")), None)
    if d is None:
        print("replay: type not found in the universe; case =", case)
        return 2
    need: typing.Dict[str, space.TypeDef] = {}

    def add(x: space.TypeDef) -> None:
        for dep in x.deps:
            add(byname[dep])
        need.setdefault(x.name, x)

    add(d)
    sh = E.Shard(0, list(need.values()), ctx.scratch)
    try:
        t = sh.models[d.name]
        top = t.inner_type if isinstance(t, pydsdl.DelimitedType) else t
        ti = [x.name for x in sh.mains].index(d.name)
        tag = case.get("config") or case.get("a") or "c-any"
        cfgs = [tag] + ([case["b"]] if "b" in case else [])
        rc = 0
        for tg in cfgs:
            c = _config(tg)
            if "tokens" in case:
                toks = case["tokens"]
                try:
                    want = ref.encode_top(t, flat.unflatten(top, iter(toks))).hex()
                except ref.ReprError as e:
                    want = "error:" + e.kind
                except Exception:  # invalid object (count/tag out of range)
                    want = "error:invalid-object"
                if c.lang == "py":
                    st, data = sh.py().serialize(t, flat.unflatten(top, iter(toks)))
                    got = f"{st}:{data.hex()}"
                    ok = (st == "ok" and data.hex() == want) or (st != "ok" and want.startswith("error"))
                else:
                    exe = sh.build(c)
                    r = sh.run_driver(exe, [f"S {ti} {E.max_bytes(t)} 255 " + " ".join(toks)])[0]
                    got = r if isinstance(r, str) else "CRASH: " + E.san_summary(r.get("crash", ""))
                    parts = got.split()
                    ok = isinstance(r, str) and ((int(parts[1]) >= 0 and (parts[3] if len(parts) > 3 and parts[3] != "-" else "") == want) or (int(parts[1]) < 0 and want.startswith("error")))
                print(f"[{tg}] serialize {d.name} {toks}\n   implementation: {got}\n   reference:      {want}")
            elif "bytes" in case:
                data = bytes.fromhex(case["bytes"])
                try:
                    val, cons = ref.decode(t, data)
                    want = " ".join(flat.flatten(top, val))
                except ref.ReprError as e:
                    want = "error:" + e.kind
                if c.lang == "py":
                    try:
                        st, val = sh.py().deserialize(t, data)
                        got = " ".join(flat.flatten(top, val)) if st == "ok" else "error"
                    except Exception as e:  # pylint: disable=broad-except
                        got = "exception:" + type(e).__name__
                    ok = (got == "error" and want.startswith("error")) or flat.same_tokens(got.split(), want.split())
                else:
                    exe = sh.build(c)
                    r = sh.run_driver(exe, [f"D {ti} 1 {E.hexs(data)}"])[0]
                    got = r if isinstance(r, str) else "CRASH: " + E.san_summary(r.get("crash", ""))
                    parts = got.split()
                    ok = isinstance(r, str) and ((int(parts[1]) < 0 and want.startswith("error")) or (int(parts[1]) >= 0 and flat.same_tokens(parts[3:], want.split())))
                print(f"[{tg}] deserialize {d.name} {case['bytes']!r}\n   implementation: {got}\n   reference:      {want}")
            elif "history" in case:
                exe = sh.build(c)
                r = sh.run_driver(exe, [f"H {ti} 1 " + " ".join(case["history"])])[0]
                print(f"[{tg}] history {case['history']} on one {d.name} object:\n   {r}\n   fresh decode expected for the last step: {case.get('fresh')}")
                ok = isinstance(r, list) and bool(r) and r[-1][2:].split() == str(case.get("fresh", "")).split()
            else:
                print("replay: nothing replayable in case", case)
                return 2
            rc |= 0 if ok else 1
        print("case holds on this tree" if rc == 0 else "case still violates the property on this tree")
        return rc
    finally:
        sh.cleanup()
