"""Flat value vectors (DESIGN 4a): the common currency between the reference model and the C / C++ / Python drivers."""
from __future__ import annotations

import math
import struct
import typing

import pydsdl


def storage_float_bits(t: pydsdl.FloatType) -> int:
    return 64 if t.bit_length == 64 else 32


def ftok(x: float, bits: int) -> str:
    if bits == 32:
        return "x%08x" % struct.unpack("<I", struct.pack("<f", x))[0]
    return "X%016x" % struct.unpack("<Q", struct.pack("<d", x))[0]


def tokf(tok: str) -> float:
    if tok[0] == "x":
        return struct.unpack("<f", struct.pack("<I", int(tok[1:], 16)))[0]
    return struct.unpack("<d", struct.pack("<Q", int(tok[1:], 16)))[0]


def flatten(t: pydsdl.SerializableType, v: typing.Any, out: typing.Optional[typing.List[str]] = None) -> typing.List[str]:
    if out is None:
        out = []
    if isinstance(t, pydsdl.DelimitedType):
        return flatten(t.inner_type, v, out)
    if isinstance(t, pydsdl.BooleanType):
        out.append("1" if v else "0")
    elif isinstance(t, pydsdl.IntegerType):
        out.append(str(int(v)))
    elif isinstance(t, pydsdl.FloatType):
        out.append(ftok(float(v), storage_float_bits(t)))
    elif isinstance(t, pydsdl.FixedLengthArrayType):
        for x in v:
            flatten(t.element_type, x, out)
    elif isinstance(t, pydsdl.VariableLengthArrayType):
        out.append(str(len(v)))
        for x in v:
            flatten(t.element_type, x, out)
    elif isinstance(t, pydsdl.UnionType):
        name, val = v
        names = [f.name for f in t.fields]
        idx = names.index(name)
        out.append(str(idx))
        flatten(t.fields[idx].data_type, val, out)
    elif isinstance(t, pydsdl.StructureType):
        for f in t.fields:
            if not isinstance(f, pydsdl.PaddingField):
                flatten(f.data_type, v[f.name], out)
    else:
        raise TypeError(type(t))
    return out


def unflatten(t: pydsdl.SerializableType, toks: typing.Iterator[str]) -> typing.Any:
    if isinstance(t, pydsdl.DelimitedType):
        return unflatten(t.inner_type, toks)
    if isinstance(t, pydsdl.BooleanType):
        return next(toks) != "0"
    if isinstance(t, pydsdl.IntegerType):
        return int(next(toks))
    if isinstance(t, pydsdl.FloatType):
        return tokf(next(toks))
    if isinstance(t, pydsdl.FixedLengthArrayType):
        return [unflatten(t.element_type, toks) for _ in range(t.capacity)]
    if isinstance(t, pydsdl.VariableLengthArrayType):
        n = int(next(toks))
        return [unflatten(t.element_type, toks) for _ in range(n)]
    if isinstance(t, pydsdl.UnionType):
        idx = int(next(toks))
        f = t.fields[idx]
        return (f.name, unflatten(f.data_type, toks))
    if isinstance(t, pydsdl.StructureType):
        return {f.name: unflatten(f.data_type, toks) for f in t.fields if not isinstance(f, pydsdl.PaddingField)}
    raise TypeError(type(t))


def same_tokens(a: typing.Sequence[str], b: typing.Sequence[str]) -> bool:
    """Token-wise equality; floats by bit pattern except that any NaN equals any NaN."""
    if len(a) != len(b):
        return False
    for x, y in zip(a, b):
        if x == y:
            continue
        if x and y and x[0] in "xX" and y[0] == x[0]:
            fx, fy = tokf(x), tokf(y)
            if math.isnan(fx) and math.isnan(fy):
                continue
        return False
    return True
