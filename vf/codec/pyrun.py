"""Python target driver: builds generated data objects from structured values, serializes / deserializes in-process."""
from __future__ import annotations

import importlib
import sys
import typing

import pydsdl


class PyTarget:
    def __init__(self, outdir: str):
        self.outdir = str(outdir)
        if self.outdir not in sys.path:
            sys.path.insert(0, self.outdir)
        importlib.invalidate_caches()
        import nunavut_support  # type: ignore  # noqa

        self.ns = sys.modules["nunavut_support"]
        self._cls: typing.Dict[str, typing.Any] = {}

    def cls(self, t: pydsdl.CompositeType) -> typing.Any:
        key = f"{t.full_name}.{t.version.major}.{t.version.minor}"
        c = self._cls.get(key)
        if c is None:
            parts = t.full_name.split(".")
            v = f"_{t.version.major}_{t.version.minor}"
            if getattr(t, "has_parent_service", False):
                mod = importlib.import_module(".".join(parts[:-2]))
                c = getattr(getattr(mod, parts[-2] + v), parts[-1])
            else:
                mod = importlib.import_module(".".join(parts[:-1]))
                c = getattr(mod, parts[-1] + v)
            self._cls[key] = c
        return c

    # ------------------------------------------------------------ build
    def build(self, t: pydsdl.SerializableType, v: typing.Any) -> typing.Any:
        import numpy as np

        if isinstance(t, pydsdl.PrimitiveType):
            return v
        if isinstance(t, pydsdl.ArrayType):
            et = t.element_type
            if isinstance(et, pydsdl.CompositeType):
                return [self.build(et, x) for x in v]
            return list(v)
        if isinstance(t, pydsdl.CompositeType):
            inner = t.inner_type if isinstance(t, pydsdl.DelimitedType) else t
            c = self.cls(t)
            if isinstance(inner, pydsdl.UnionType):
                name, val = v
                f = next(f for f in inner.fields if f.name == name)
                return c(**{name: self.build(f.data_type, val)})
            kw = {f.name: self.build(f.data_type, v[f.name]) for f in inner.fields if not isinstance(f, pydsdl.PaddingField)}
            return c(**kw)
        raise TypeError(type(t))

    # ------------------------------------------------------------ dump
    def dump(self, t: pydsdl.SerializableType, o: typing.Any) -> typing.Any:
        if isinstance(t, pydsdl.BooleanType):
            return bool(o)
        if isinstance(t, pydsdl.IntegerType):
            return int(o)
        if isinstance(t, pydsdl.FloatType):
            return float(o)
        if isinstance(t, pydsdl.ArrayType):
            return [self.dump(t.element_type, x) for x in o]
        if isinstance(t, pydsdl.CompositeType):
            inner = t.inner_type if isinstance(t, pydsdl.DelimitedType) else t
            if isinstance(inner, pydsdl.UnionType):
                active = [(f.name, getattr(o, f.name)) for f in inner.fields if getattr(o, f.name) is not None]
                if len(active) != 1:
                    raise AssertionError(f"union holds {len(active)} options")
                f = next(f for f in inner.fields if f.name == active[0][0])
                return (f.name, self.dump(f.data_type, active[0][1]))
            return {f.name: self.dump(f.data_type, getattr(o, f.name)) for f in inner.fields if not isinstance(f, pydsdl.PaddingField)}
        raise TypeError(type(t))

    def serialize(self, t: pydsdl.CompositeType, v: typing.Any) -> typing.Tuple[str, bytes]:
        """('ok', bytes) | ('reject', b'') when the data object refuses the value | ('error', b'') on a serialization error."""
        try:
            o = self.build(t, v)
        except ValueError:
            return "reject", b""
        except Exception as e:  # pylint: disable=broad-except
            return "reject:" + type(e).__name__, b""  # e.g. OverflowError from a wrong NumPy dtype: a refusal, not a harness fault
        try:
            return "ok", b"".join(bytes(x) for x in self.ns.serialize(o))
        except Exception as e:  # pylint: disable=broad-except
            return "error:" + type(e).__name__, b""

    def deserialize(self, t: pydsdl.CompositeType, data: bytes) -> typing.Tuple[str, typing.Any]:
        o = self.ns.deserialize(self.cls(t), [memoryview(bytearray(data))])
        if o is None:
            return "error", None
        return "ok", self.dump(t, o)
