"""
E4 codec harness engine: shard the type universe, generate code with the working tree for each (target, option set),
emit glue, compile, stream commands through the driver, and hand back per-case results to the oracles of C01..C05.
"""
from __future__ import annotations

import os
import pathlib
import re
import shutil
import subprocess
import typing

import pydsdl

from vf import gen
from vf.codec import flat, glue, pyrun, ref, space
from vf.core import VERIF, Bag, Ctx, HarnessError

DRIVERS = VERIF / "vf" / "drivers"
SAN_FLAGS = ["-fsanitize=address,undefined", "-fno-sanitize-recover=undefined", "-fno-omit-frame-pointer", "-g1", "-O1"]
HANG_TIMEOUT = float(os.environ.get("VERIF_HANG_TIMEOUT", "240"))
RUN_ENV = {"ASAN_OPTIONS": "detect_leaks=1:exitcode=99:allocator_may_return_null=1", "UBSAN_OPTIONS": "print_stacktrace=1:halt_on_error=1", "LSAN_OPTIONS": "exitcode=98"}


class Config(typing.NamedTuple):
    tag: str
    lang: str  # c | cpp | py
    options: typing.Tuple[typing.Tuple[str, typing.Any], ...] = ()
    sanitize: bool = False
    compiler: str = ""

    @property
    def opts(self) -> dict:
        return dict(self.options)


def cfg(tag: str, lang: str, sanitize: bool = False, compiler: str = "", **options: typing.Any) -> Config:
    return Config(tag, lang, tuple(sorted(options.items())), sanitize, compiler)


C_ANY = cfg("c-any", "c", target_endianness="any")
C_LITTLE = cfg("c-little", "c", target_endianness="little")
C_BIG_ASSERT = cfg("c-big-assert", "c", target_endianness="big", enable_serialization_asserts=True)
C_LITTLE_ASSERT = cfg("c-little-assert", "c", target_endianness="little", enable_serialization_asserts=True)
C_ANY_ASSERT = cfg("c-any-assert", "c", target_endianness="any", enable_serialization_asserts=True)
C_BIG = cfg("c-big", "c", target_endianness="big")
C_LITTLE_OVERRIDE = cfg("c-little-override", "c", target_endianness="little", enable_override_variable_array_capacity=True)
CPP14 = cfg("cpp14", "cpp", std="c++14")
CPP17 = cfg("cpp17", "cpp", std="c++17")
CPP17_LITTLE_ASSERT = cfg("cpp17-little-assert", "cpp", std="c++17", target_endianness="little", enable_serialization_asserts=True)
CPP20 = cfg("cpp20", "cpp", std="c++20")
CPP14_LITTLE = cfg("cpp14-little", "cpp", std="c++14", target_endianness="little")
CPP17_PMR = cfg("cpp17-pmr", "cpp", std="c++17-pmr")
PY = cfg("py", "py")


def san(c: Config, compiler: str = "") -> Config:
    return c._replace(tag=c.tag + "-san" + (("-" + compiler) if compiler else ""), sanitize=True, compiler=compiler)


# ------------------------------------------------------------------------------------------------ sharding
def make_shards(defs: typing.Sequence[space.TypeDef], per_shard: int) -> typing.List[typing.List[space.TypeDef]]:
    byname = {d.name: d for d in defs}
    mains = [d for d in defs if d.layer != "L3i"]
    shards = []
    for i in range(0, len(mains), per_shard):
        chunk = mains[i : i + per_shard]
        need: typing.Dict[str, space.TypeDef] = {}

        def add(d: space.TypeDef) -> None:
            for dep in d.deps:
                add(byname[dep])
            need.setdefault(d.name, d)

        for d in chunk:
            add(d)
        shards.append(list(need.values()))
    return shards


def select(ctx: Ctx, defs: typing.Sequence[space.TypeDef]) -> typing.List[space.TypeDef]:
    """quick: the fixed core + the seed-selected slice of the rest; thorough: everything. Helper types always."""
    return [d for d in defs if d.layer == "L3i" or ctx.thorough or d.core or ctx.in_slice(d.name)]


# ------------------------------------------------------------------------------------------------ one shard
class Shard:
    def __init__(self, sid: int, defs: typing.Sequence[space.TypeDef], scratch: pathlib.Path):
        self.sid = sid
        self.ns = f"s{sid:03d}"
        self.defs = list(defs)
        self.dir = scratch / self.ns
        self.src = self.dir / "dsdl"
        files = {f"{self.ns}/{d.name}.1.0.dsdl": d.body.replace("NS.", self.ns + ".") for d in self.defs}
        gen.write_ns(self.src, files)
        types = pydsdl.read_namespace(str(self.src / self.ns), [], allow_unregulated_fixed_port_id=True)
        self.models: typing.Dict[str, pydsdl.CompositeType] = {t.short_name: t for t in types}
        self.all_types = list(types)
        # a service definition contributes two codec types (request, response), both described by the same TypeDef
        self.mains, self.main_models = [], []
        for d in self.defs:
            if d.layer == "L3i":
                continue
            m = self.models[d.name]
            for part in ([m.request_type, m.response_type] if isinstance(m, pydsdl.ServiceType) else [m]):
                self.mains.append(d)
                self.main_models.append(part)
        self._py: typing.Optional[pyrun.PyTarget] = None

    def cleanup(self) -> None:
        shutil.rmtree(self.dir, ignore_errors=True)

    # ---------------------------------------------------------------- build
    def outdir(self, c: Config) -> pathlib.Path:
        return self.dir / ("out_" + c.tag.replace("-san", "").split("-clang")[0])

    def generate(self, c: Config, extra_options: typing.Optional[dict] = None) -> pathlib.Path:
        out = self.outdir(c)
        if not out.exists() or extra_options:
            opts = c.opts
            opts.update(extra_options or {})
            gen.generate(c.lang, self.src / self.ns, out, options=opts, types=self.all_types)
        return out

    def build(self, c: Config, defines: typing.Sequence[str] = (), extra_options: typing.Optional[dict] = None) -> pathlib.Path:
        """Returns the driver executable for this shard and config (C / C++)."""
        out = self.generate(c, extra_options)
        cpp = c.lang == "cpp"
        src = self.dir / f"glue_{c.tag}.{'cpp' if cpp else 'c'}"
        src.write_text(glue.generate(self.main_models, cpp))
        exe = self.dir / f"drv_{c.tag}"
        std = c.opts.get("std", "c++14").replace("-pmr", "") if cpp else "c11"
        cc = c.compiler or ("g++" if cpp else "gcc")
        if cc == "clang" and cpp:
            cc = "clang++"
        cmd = [cc, f"-std={std}", "-D_POSIX_C_SOURCE=200809L", "-I", str(out), "-I", str(DRIVERS)]
        cmd += SAN_FLAGS if c.sanitize else ["-O0"]
        if c.opts.get("enable_serialization_asserts"):
            cmd += ["-DNUNAVUT_ASSERT=assert", "-include", "cassert" if cpp else "assert.h"]
        cmd += list(defines) + ["-w", str(src), "-o", str(exe), "-lm"]
        p = gen.run_cmd(cmd, timeout=1800)
        if p.returncode != 0:
            raise HarnessError(f"glue/driver build failed [{c.tag}] shard {self.ns}:\n{p.stdout[-3000:]}")
        return exe

    def py(self) -> pyrun.PyTarget:
        if self._py is None:
            out = self.generate(PY)
            self._py = pyrun.PyTarget(str(out))
        return self._py

    # ---------------------------------------------------------------- run
    def run_driver(self, exe: pathlib.Path, cmds: typing.Sequence[str]) -> typing.List[typing.Union[str, typing.List[str], dict]]:
        """Streams commands; returns one entry per command: the output line (S/D/R), list of lines (H) or
        {'crash': report} if the driver died on that command (sanitizer report / signal). Restarts after a crash."""
        results: typing.List[typing.Any] = []
        start = 0
        env = dict(os.environ)
        env.update(RUN_ENV)
        inp = self.dir / f"cmds_{exe.name}.txt"
        while start < len(cmds):
            inp.write_text("\n".join(cmds[start:]) + "\n")
            hung = False
            with open(inp, "r", encoding="utf-8") as fh:
                try:
                    p = gen.run_cmd([str(exe)], stdin=fh, env=env, timeout=int(HANG_TIMEOUT + 0.05 * (len(cmds) - start)))
                except subprocess.TimeoutExpired as te:
                    hung = True
                    so = te.stdout or b""
                    p = subprocess.CompletedProcess([str(exe)], 124, so.decode("utf-8", "replace") if isinstance(so, bytes) else so)
            lines = p.stdout.splitlines()
            if hung:
                lines.append(f"HANG: driver did not finish within the time limit ({HANG_TIMEOUT}s + 50ms/command)")
            got: typing.List[typing.Any] = []
            cur: typing.Optional[typing.List[str]] = None
            tail_start = len(lines)
            for li, ln in enumerate(lines):
                if len(got) >= len(cmds) - start:
                    tail_start = li
                    break
                expect_h = cmds[start + len(got)].startswith("H ")
                if expect_h:
                    if ln.startswith("h "):
                        cur = (cur or []) + [ln]
                    elif ln.startswith("H end"):
                        got.append(cur or [])
                        cur = None
                    else:
                        tail_start = li
                        break
                elif ln[:2] in ("S ", "D ", "R "):
                    got.append(ln)
                else:
                    tail_start = li
                    break
            results += got
            start += len(got)
            if start < len(cmds):
                if p.returncode == 0 and tail_start >= len(lines):
                    raise HarnessError(f"driver {exe} stopped early without a report (rc=0)")
                if p.returncode == 3:
                    raise HarnessError(f"glue error in driver {exe}: {p.stdout[-500:]}")
                report = "\n".join(lines[tail_start:])[:4000]
                results.append({"crash": report or f"exit status {p.returncode}", "partial": cur or []})
                start += 1
            elif p.returncode != 0:
                # all commands answered but the process failed at exit: leak report
                report = "\n".join(lines[tail_start:])[:4000]
                results.append({"exit_report": report or f"exit status {p.returncode}"})
        return results


def san_summary(report: str) -> str:
    if "HANG: driver did not finish" in report:
        return "hang (no termination within the time limit)"
    m = re.search(r"(AddressSanitizer: [a-zA-Z\-]+|runtime error: [^\n]*|LeakSanitizer: [^\n]*|Assertion [^\n]*failed)", report)
    s = m.group(1) if m else report.strip().splitlines()[0] if report.strip() else "crash"
    s = re.sub(r"0x[0-9a-f]+", "ADDR", s)
    s = re.sub(r"glue_[^:]*:\d+:\d+: ", "", s)
    return s[:160]


def san_site(report: str) -> str:
    """first frame inside generated code (function name) for classification"""
    for m in re.finditer(r"#\d+ 0x[0-9a-f]+ in ([A-Za-z0-9_:~<>]+)", report):
        fn = m.group(1)
        if not fn.startswith(("__", "operator", "malloc", "free", "memcpy", "memmove", "memset")):
            return re.sub(r"s\d\d\d_?", "", fn)[:80]
    return "?"


# ------------------------------------------------------------------------------------------------ case builders
def ser_cases(t: pydsdl.CompositeType, storage: bool) -> typing.List[typing.Tuple[typing.Any, typing.Optional[str]]]:
    """(value, invalid_kind|None)"""
    top = t.inner_type if isinstance(t, pydsdl.DelimitedType) else t
    out: typing.List[typing.Tuple[typing.Any, typing.Optional[str]]] = [(v, None) for v in space.values_of(top, storage)]
    out += [(v, k) for k, v in space.invalid_values(t)]
    return out


def in_dsdl_range(t: pydsdl.SerializableType, v: typing.Any) -> bool:
    """True iff every primitive leaf is inside the DSDL range of its field (what the Python data objects accept)."""
    if isinstance(t, pydsdl.DelimitedType):
        return in_dsdl_range(t.inner_type, v)
    if isinstance(t, pydsdl.BooleanType):
        return True
    if isinstance(t, pydsdl.IntegerType):
        return int(t.inclusive_value_range.min) <= v <= int(t.inclusive_value_range.max)
    if isinstance(t, pydsdl.FloatType):
        import math

        return v != v or math.isinf(v) or abs(v) <= float(ref.float_max(t.bit_length))
    if isinstance(t, pydsdl.ArrayType):
        return all(in_dsdl_range(t.element_type, x) for x in v)
    if isinstance(t, pydsdl.UnionType):
        f = next(f for f in t.fields if f.name == v[0])
        return in_dsdl_range(f.data_type, v[1])
    if isinstance(t, pydsdl.StructureType):
        return all(in_dsdl_range(f.data_type, v[f.name]) for f in t.fields if not isinstance(f, pydsdl.PaddingField))
    raise TypeError(type(t))


def max_bytes(t: pydsdl.CompositeType) -> int:
    top = t.inner_type if isinstance(t, pydsdl.DelimitedType) else t
    return (top.bit_length_set.max + 7) // 8


def des_cases(t: pydsdl.CompositeType, encodings: typing.Sequence[bytes], thorough: bool, cap: int) -> typing.Tuple[typing.List[bytes], bool]:
    """Byte strings per DESIGN C02 (i)-(vii); returns (list, capped?)."""
    seen: typing.Dict[bytes, None] = {}

    def add(b: bytes) -> None:
        seen.setdefault(bytes(b), None)

    mb = max_bytes(t)
    add(b"")
    encs = list(dict.fromkeys(encodings))
    for e in encs:
        add(e)
    def spread(n: int) -> typing.List[int]:
        """every position for ordinary types; for the few very large ones both ends densely and a stride in between"""
        if n <= 400:
            return list(range(n))
        return sorted(set(range(0, 48)) | set(range(n - 48, n)) | set(range(0, n, max(1, n // 24))))

    for n in spread(mb + 3):  # (vi)
        add(b"\xff" * n)
        add(bytes([0xAA if i % 2 == 0 else 0x55 for i in range(n)]))
        add(b"\x00" * n)
    if mb <= 2:  # (v)
        for n in (1, 2):
            for x in range(256**n):
                add(x.to_bytes(n, "little"))
    step = 1 if thorough else 3
    for e in encs[:: 1 if thorough else 2]:
        for cut in spread(len(e)):  # (ii)
            add(e[:cut])
        for tail in (b"\x00", b"\xff", b"\xa5\xff"):  # (iii)
            add(e + tail)
    for e in encs[::step]:
        if len(e) <= 16:  # (iv)
            for bit in range(len(e) * 8):
                f = bytearray(e)
                f[bit // 8] ^= 1 << (bit % 8)
                add(bytes(f))
    out = list(seen)
    capped = len(out) > cap
    if capped:
        # keep a deterministic spread: everything short first (length classes matter most), then a stride
        head = [b for b in out if len(b) <= 3][: cap // 2]
        rest = [b for b in out if len(b) > 3]
        stride = max(1, len(rest) // max(1, cap - len(head)))
        out = head + rest[::stride][: cap - len(head)]
    return out, capped


def hexs(b: bytes) -> str:
    return b.hex() if b else "-"


def debug_filter(jobs: typing.List[tuple]) -> typing.List[tuple]:
    """VERIF_ONLY_SHARDS=0,5,27 restricts a run to some shards (bring-up only; never set by registered commands)."""
    only = os.environ.get("VERIF_ONLY_SHARDS")
    if not only:
        return jobs
    keep = {int(x) for x in only.split(",")}
    return [j for j in jobs if j[0] in keep]
