"""Generates the C and C++ glue (build object from a flat value vector / dump object to a flat value vector) per type."""
from __future__ import annotations

import typing

import pydsdl


def c_name(t: pydsdl.CompositeType) -> str:
    return t.full_name.replace(".", "_") + f"_{t.version.major}_{t.version.minor}"


def cpp_name(t: pydsdl.CompositeType) -> str:
    return "::".join(t.full_name.split(".")) + f"_{t.version.major}_{t.version.minor}"


def _cprim(t: pydsdl.PrimitiveType) -> str:
    if isinstance(t, pydsdl.BooleanType):
        return "bool"
    if isinstance(t, pydsdl.FloatType):
        return "double" if t.bit_length == 64 else "float"
    w = next(w for w in (8, 16, 32, 64) if w >= t.bit_length)
    return f"{'u' if isinstance(t, pydsdl.UnsignedIntegerType) else ''}int{w}_t"


def _rd(t: pydsdl.PrimitiveType, cpp: bool) -> str:
    ct = _cprim(t)
    cast = (lambda e: f"static_cast<{ct}>({e})") if cpp else (lambda e: f"({ct}) {e}")
    if isinstance(t, pydsdl.BooleanType):
        return "(tok_u64(t) != 0U)"
    if isinstance(t, pydsdl.FloatType):
        return "tok_f64(t)" if t.bit_length == 64 else "tok_f32(t)"
    if isinstance(t, pydsdl.UnsignedIntegerType):
        return cast("tok_u64(t)")
    return cast("tok_i64(t)")


def _wr(t: pydsdl.PrimitiveType, e: str) -> str:
    if isinstance(t, pydsdl.BooleanType):
        return f"out_u64(out, ({e}) ? 1U : 0U);"
    if isinstance(t, pydsdl.FloatType):
        return f"out_f64(out, {e});" if t.bit_length == 64 else f"out_f32(out, {e});"
    if isinstance(t, pydsdl.UnsignedIntegerType):
        return f"out_u64(out, (uint64_t) ({e}));"
    return f"out_i64(out, (int64_t) ({e}));"


def _inner(t: pydsdl.SerializableType) -> pydsdl.SerializableType:
    return t


class _Gen:
    def __init__(self, cpp: bool):
        self.cpp = cpp
        self.n = 0

    def var(self, p: str) -> str:
        self.n += 1
        return f"{p}{self.n}"

    def tname(self, t: pydsdl.CompositeType) -> str:
        return cpp_name(t) if self.cpp else c_name(t)

    def fn(self, t: pydsdl.CompositeType) -> str:
        return c_name(t)

    # ---------------------------------------------------------------- build
    def build(self, t: pydsdl.SerializableType, lv: str, ind: str) -> typing.List[str]:
        """lv: lvalue expression of the member (C: `o->x`, C++: `o.x`)."""
        L: typing.List[str] = []
        if isinstance(t, pydsdl.PrimitiveType):
            L.append(f"{ind}{lv} = {_rd(t, self.cpp)};")
        elif isinstance(t, pydsdl.CompositeType):
            L.append(f"{ind}build_{self.fn(t)}({'' if self.cpp else '&'}{lv}, t);")
        elif isinstance(t, pydsdl.FixedLengthArrayType):
            i = self.var("i")
            et = t.element_type
            if isinstance(et, pydsdl.BooleanType):
                if self.cpp:
                    L.append(f"{ind}for (size_t {i} = 0; {i} < {t.capacity}U; {i}++) {{ {lv}[{i}] = (tok_u64(t) != 0U); }}")
                else:
                    bp = f"{lv}_bitpacked_"
                    L.append(f"{ind}memset({bp}, 0, sizeof({bp}));")
                    L.append(f"{ind}for (size_t {i} = 0; {i} < {t.capacity}U; {i}++) {{ if (tok_u64(t) != 0U) {{ {bp}[{i} / 8U] = (uint8_t) ({bp}[{i} / 8U] | (1U << ({i} % 8U))); }} }}")
            else:
                L.append(f"{ind}for (size_t {i} = 0; {i} < {t.capacity}U; {i}++) {{")
                L += self.build(et, f"{lv}[{i}]", ind + "    ")
                L.append(f"{ind}}}")
        elif isinstance(t, pydsdl.VariableLengthArrayType):
            i, c = self.var("i"), self.var("cnt")
            et = t.element_type
            fl = self.var("fl")
            L.append(f"{ind}uint64_t {fl} = 0U;")
            L.append(f"{ind}const size_t {c}_set = (size_t) tok_count(t, &{fl});")
            L.append(f"{ind}const size_t {c} = (size_t) {fl};")
            if self.cpp:
                e = self.var("e")
                L.append(f"{ind}(void) {c}_set;")
                L.append(f"{ind}{lv}.clear();")
                L.append(f"{ind}for (size_t {i} = 0; {i} < {c}; {i}++) {{")
                L.append(f"{ind}    typename std::remove_reference<decltype({lv})>::type::value_type {e}{{}};")
                L += self.build(et, e, ind + "    ")
                L.append(f"{ind}    {lv}.push_back({e});")
                L.append(f"{ind}}}")
            else:
                L.append(f"{ind}{lv}.count = {c}_set;")
                if isinstance(et, pydsdl.BooleanType):
                    L.append(f"{ind}memset({lv}.bitpacked, 0, sizeof({lv}.bitpacked));")
                    L.append(f"{ind}for (size_t {i} = 0; {i} < {c}; {i}++) {{ const bool b_ = (tok_u64(t) != 0U); if (b_ && ({i} < {t.capacity}U)) {{ {lv}.bitpacked[{i} / 8U] = (uint8_t) ({lv}.bitpacked[{i} / 8U] | (1U << ({i} % 8U))); }} }}")
                else:
                    tmp = self.var("tmp")
                    et_c = _cprim(et) if isinstance(et, pydsdl.PrimitiveType) else c_name(et)
                    L.append(f"{ind}for (size_t {i} = 0; {i} < {c}; {i}++) {{")
                    L.append(f"{ind}    if ({i} < (sizeof({lv}.elements) / sizeof({lv}.elements[0]))) {{")
                    L += self.build(et, f"{lv}.elements[{i}]", ind + "        ")
                    L.append(f"{ind}    }} else {{")
                    L.append(f"{ind}        {et_c} {tmp};")
                    L += self.build(et, tmp, ind + "        ")
                    L.append(f"{ind}        (void) {tmp};")
                    L.append(f"{ind}    }}")
                    L.append(f"{ind}}}")
        else:
            raise TypeError(type(t))
        return L

    # ---------------------------------------------------------------- dump
    def dump(self, t: pydsdl.SerializableType, rv: str, ind: str) -> typing.List[str]:
        L: typing.List[str] = []
        if isinstance(t, pydsdl.PrimitiveType):
            L.append(f"{ind}{_wr(t, rv)}")
        elif isinstance(t, pydsdl.CompositeType):
            L.append(f"{ind}dump_{self.fn(t)}({'' if self.cpp else '&'}{rv}, out);")
        elif isinstance(t, pydsdl.FixedLengthArrayType):
            i = self.var("i")
            et = t.element_type
            if isinstance(et, pydsdl.BooleanType):
                if self.cpp:
                    L.append(f"{ind}for (size_t {i} = 0; {i} < {t.capacity}U; {i}++) {{ out_u64(out, {rv}[{i}] ? 1U : 0U); }}")
                else:
                    L.append(f"{ind}for (size_t {i} = 0; {i} < {t.capacity}U; {i}++) {{ out_u64(out, ({rv}_bitpacked_[{i} / 8U] >> ({i} % 8U)) & 1U); }}")
            else:
                L.append(f"{ind}for (size_t {i} = 0; {i} < {t.capacity}U; {i}++) {{")
                L += self.dump(et, f"{rv}[{i}]", ind + "    ")
                L.append(f"{ind}}}")
        elif isinstance(t, pydsdl.VariableLengthArrayType):
            i = self.var("i")
            et = t.element_type
            if self.cpp:
                L.append(f"{ind}out_u64(out, {rv}.size());")
                L.append(f"{ind}for (size_t {i} = 0; {i} < {rv}.size(); {i}++) {{")
                if isinstance(et, pydsdl.BooleanType):
                    L.append(f"{ind}    out_u64(out, {rv}[{i}] ? 1U : 0U);")
                else:
                    L += self.dump(et, f"{rv}[{i}]", ind + "    ")
                L.append(f"{ind}}}")
            else:
                L.append(f"{ind}out_u64(out, {rv}.count);")
                bound = f"{t.capacity}U" if isinstance(et, pydsdl.BooleanType) else f"(sizeof({rv}.elements) / sizeof({rv}.elements[0]))"
                L.append(f"{ind}for (size_t {i} = 0; ({i} < {rv}.count) && ({i} < {bound}); {i}++) {{")
                if isinstance(et, pydsdl.BooleanType):
                    L.append(f"{ind}    out_u64(out, ({rv}.bitpacked[{i} / 8U] >> ({i} % 8U)) & 1U);")
                else:
                    L += self.dump(et, f"{rv}.elements[{i}]", ind + "    ")
                L.append(f"{ind}}}")
        else:
            raise TypeError(type(t))
        return L

    # ---------------------------------------------------------------- per composite type
    def composite(self, t: pydsdl.CompositeType) -> typing.List[str]:
        inner = t.inner_type if isinstance(t, pydsdl.DelimitedType) else t
        T, F = self.tname(t), self.fn(t)
        acc = "o." if self.cpp else "o->"
        obj_b = f"{T}& o" if self.cpp else f"{T}* o"
        obj_d = f"const {T}& o" if self.cpp else f"const {T}* o"
        L = [f"static void build_{F}({obj_b}, Tok* t)", "{", "    (void) o; (void) t;"]
        fields = [f for f in inner.fields if not isinstance(f, pydsdl.PaddingField)]
        if isinstance(inner, pydsdl.UnionType):
            L.append("    const uint64_t tag = tok_u64(t);")
            if not self.cpp:
                tw = next(w for w in (8, 16, 32, 64) if w >= inner.tag_field_type.bit_length)
                L.append(f"    o->_tag_ = (uint{tw}_t) tag;")
            L.append("    switch (tag) {")
            for k, f in enumerate(fields):
                L.append(f"    case {k}: {{")
                if self.cpp:
                    L.append(f"        auto& r_ = o.set_{f.name}();")
                    L += self.build(f.data_type, "r_", "        ")
                else:
                    L += self.build(f.data_type, acc + f.name, "        ")
                L.append("        break; }")
            L.append("    default: break;")
            L.append("    }")
        else:
            for f in fields:
                L += self.build(f.data_type, acc + f.name, "    ")
        L.append("}")
        L += [f"static void dump_{F}({obj_d}, Out* out)", "{", "    (void) o; (void) out;"]
        if isinstance(inner, pydsdl.UnionType):
            if self.cpp:
                L.append("    const size_t tag = o.union_value.index();")
            else:
                L.append("    const size_t tag = o->_tag_;")
            L.append("    out_u64(out, tag);")
            L.append("    switch (tag) {")
            for k, f in enumerate(fields):
                L.append(f"    case {k}: {{")
                if self.cpp:
                    L += self.dump(f.data_type, f"(*o.get_{f.name}_if())", "        ")
                else:
                    L += self.dump(f.data_type, acc + f.name, "        ")
                L.append("        break; }")
            L.append("    default: break;")
            L.append("    }")
        else:
            for f in fields:
                L += self.dump(f.data_type, acc + f.name, "    ")
        L.append("}")
        return L

    def ops(self, t: pydsdl.CompositeType) -> typing.List[str]:
        T, F = self.tname(t), self.fn(t)
        if self.cpp:
            return [
                # prior 0: value-initialised; 1 / 2: DEFAULT-initialised (`T obj;`) in storage that holds 0xAA / 0x55 garbage, as in a
                # reused slot: only what the generated constructors set is defined (the histories never read before a decode)
                f"static void* create_{F}(int prior) {{ void* m = ::operator new(sizeof({T})); if (prior == 0) {{ return new (m) {T}(); }} memset(m, prior == 1 ? 0xAA : 0x55, sizeof({T})); return new (m) {T}; }}",
                f"static void destroy_{F}(void* o) {{ glue_destroy_<{T}>(o); }}",
                f"static void vbuild_{F}(void* o, Tok* t) {{ build_{F}(*static_cast<{T}*>(o), t); }}",
                f"static void vdump_{F}(const void* o, Out* out) {{ dump_{F}(*static_cast<const {T}*>(o), out); }}",
                f"static int ser_{F}(const void* o, uint8_t* b, size_t* s) {{ auto r = serialize(*static_cast<const {T}*>(o), nunavut::support::bitspan{{b, *s}}); if (r) {{ *s = r.value(); return 0; }} return -static_cast<int>(r.error()); }}",
                f"static int des_{F}(void* o, const uint8_t* b, size_t* s) {{ auto r = deserialize(*static_cast<{T}*>(o), nunavut::support::const_bitspan{{b, *s}}); if (r) {{ *s = r.value(); return 0; }} return -static_cast<int>(r.error()); }}",
                f"static void* clone_{F}(const void* o) {{ return new {T}(*static_cast<const {T}*>(o)); }}",
                f"static void assign_{F}(void* d, const void* s) {{ *static_cast<{T}*>(d) = *static_cast<const {T}*>(s); }}",
                f"static void massign_{F}(void* d, void* s) {{ *static_cast<{T}*>(d) = std::move(*static_cast<{T}*>(s)); }}",
            ]
        return [
            f"static void* create_{F}(int prior) {{ {T}* o = ({T}*) malloc(sizeof({T})); memset(o, prior == 0 ? 0 : (prior == 1 ? 0xAA : 0x55), sizeof({T})); return o; }}",
            f"static void destroy_{F}(void* o) {{ free(o); }}",
            f"static void vbuild_{F}(void* o, Tok* t) {{ build_{F}(({T}*) o, t); }}",
            f"static void vdump_{F}(const void* o, Out* out) {{ dump_{F}((const {T}*) o, out); }}",
            f"static int ser_{F}(const void* o, uint8_t* b, size_t* s) {{ return {T}_serialize_((const {T}*) o, b, s); }}",
            f"static int des_{F}(void* o, const uint8_t* b, size_t* s) {{ return {T}_deserialize_(({T}*) o, b, s); }}",
            f"static void* clone_{F}(const void* o) {{ {T}* c = ({T}*) malloc(sizeof({T})); memcpy(c, o, sizeof({T})); return c; }}",
            f"static void assign_{F}(void* d, const void* s) {{ memcpy(d, s, sizeof({T})); }}",
            f"static void massign_{F}(void* d, void* s) {{ memcpy(d, s, sizeof({T})); }}",
        ]


def _closure(types: typing.Sequence[pydsdl.CompositeType]) -> typing.List[pydsdl.CompositeType]:
    """The given types plus every composite they reference, dependencies first."""
    seen: typing.Dict[str, pydsdl.CompositeType] = {}
    order: typing.List[pydsdl.CompositeType] = []

    def visit(t: pydsdl.SerializableType) -> None:
        if isinstance(t, pydsdl.ArrayType):
            visit(t.element_type)
        elif isinstance(t, pydsdl.CompositeType):
            key = f"{t.full_name}.{t.version.major}.{t.version.minor}"
            if key in seen:
                return
            seen[key] = t
            inner = t.inner_type if isinstance(t, pydsdl.DelimitedType) else t
            for f in inner.fields:
                visit(f.data_type)
            order.append(t)

    for t in types:
        visit(t)
    return order


def include_path(t: pydsdl.CompositeType, ext: str) -> str:
    parts = t.full_name.split(".")
    if getattr(t, "has_parent_service", False):
        parts = parts[:-1]  # request/response live in the header of their service
    return "/".join(parts[:-1] + [f"{parts[-1]}_{t.version.major}_{t.version.minor}{ext}"])


def generate(types: typing.Sequence[pydsdl.CompositeType], cpp: bool) -> str:
    g = _Gen(cpp)
    allt = _closure(types)
    L = ["// generated by vf/codec/glue.py"]
    for t in allt:
        L.append(f'#include "{include_path(t, ".hpp" if cpp else ".h")}"')
    if cpp:
        L.append("#include <type_traits>\n#include <utility>\n#include <new>\n#include <cstring>")
    L.append('#include "codec_core.h"')
    if cpp:
        L.append("template <typename T> static void glue_destroy_(void* o) { static_cast<T*>(o)->~T(); ::operator delete(o); }")
    for t in allt:
        L += g.composite(t)
    for t in types:
        L += g.ops(t)
    L.append("const TypeOps g_types[] = {")
    for t in types:
        F = c_name(t)
        L.append(f'    {{"{F}", create_{F}, destroy_{F}, vbuild_{F}, vdump_{F}, ser_{F}, des_{F}, clone_{F}, assign_{F}, massign_{F}}},')
    L.append("};")
    L.append(f"const size_t g_ntypes = {len(types)}U;")
    L.append("int main(void) { return driver_main(); }")
    return "\n".join(L) + "\n"
