"""
E3 refcodec - reference model of the DSDL wire format over the PyDSDL model.  Deliberately boring: bit lists, Python
ints, fractions; shares no code with nunavut's templates or its generated support library.

Values: bool -> bool; integer -> int; float -> Python float (inf/nan allowed); fixed/variable array -> list;
structure -> dict field name -> value (padding fields have no entry); union -> ("name", value) ; nested composite -> its value.
"""
from __future__ import annotations

import math
import struct
import typing
from fractions import Fraction

import pydsdl


class ReprError(Exception):
    """The value / byte string has no valid representation (array length, union tag, delimiter header)."""

    def __init__(self, kind: str):
        super().__init__(kind)
        self.kind = kind


# ------------------------------------------------------------------------------------------ float helpers (exact)
_F = {16: (5, 10), 32: (8, 23), 64: (11, 52)}


def float_max(bits: int) -> Fraction:
    e, m = _F[bits]
    bias = (1 << (e - 1)) - 1
    return Fraction((1 << (m + 1)) - 1, 1 << m) * Fraction(2) ** bias


def float_to_bits_exact(x: float, bits: int, ties: str = "even") -> typing.Optional[int]:
    """Rounds a finite/inf/nan Python float to the IEEE format; returns the bit pattern. Exact rational arithmetic."""
    e, m = _F[bits]
    bias = (1 << (e - 1)) - 1
    if x != x:
        return ((1 << e) - 1) << m | (1 << (m - 1))
    sign = 1 if math.copysign(1.0, x) < 0 else 0
    if math.isinf(x):
        return sign << (bits - 1) | ((1 << e) - 1) << m
    q = abs(Fraction(x))
    if q == 0:
        return sign << (bits - 1)
    # find exponent
    ex = math.floor(math.log2(q)) if q > 0 else 0
    while Fraction(2) ** ex > q:
        ex -= 1
    while Fraction(2) ** (ex + 1) <= q:
        ex += 1
    ex = max(ex, 1 - bias)
    unit = Fraction(2) ** (ex - m)
    n = q / unit  # mantissa incl. implicit bit, in units
    fl = n.numerator // n.denominator
    rem = n - fl
    if rem > Fraction(1, 2) or (rem == Fraction(1, 2) and (ties == "away" or (ties == "even" and fl & 1))):
        fl += 1
    # fl in [0, 2^(m+1)]
    if fl >= (1 << (m + 1)):
        fl >>= 1
        ex += 1
    if fl < (1 << m):
        biased = 0  # subnormal
        mant = fl
    else:
        biased = ex + bias
        mant = fl - (1 << m)
    if biased >= (1 << e) - 1:
        return sign << (bits - 1) | ((1 << e) - 1) << m
    return sign << (bits - 1) | biased << m | mant


def fraction_to_bits(q: Fraction, bits: int, ties: str = "even") -> int:
    """Exact rational -> IEEE bit pattern of the given width (round to nearest; overflow -> inf)."""
    e, m = _F[bits]
    bias = (1 << (e - 1)) - 1
    sign = 1 if q < 0 else 0
    q = abs(q)
    if q == 0:
        return 0
    ex = q.numerator.bit_length() - q.denominator.bit_length()
    while Fraction(2) ** ex > q:
        ex -= 1
    while Fraction(2) ** (ex + 1) <= q:
        ex += 1
    ex = max(ex, 1 - bias)
    n = q / Fraction(2) ** (ex - m)
    fl = n.numerator // n.denominator
    rem = n - fl
    if rem > Fraction(1, 2) or (rem == Fraction(1, 2) and (ties == "away" or fl & 1)):
        fl += 1
    if fl >= (1 << (m + 1)):
        fl >>= 1
        ex += 1
    if fl < (1 << m):
        biased, mant = 0, fl
    else:
        biased, mant = ex + bias, fl - (1 << m)
    if biased >= (1 << e) - 1:
        return sign << (bits - 1) | ((1 << e) - 1) << m
    return sign << (bits - 1) | biased << m | mant


def bits_to_fraction(b: int, bits: int) -> Fraction:
    e, m = _F[bits]
    bias = (1 << (e - 1)) - 1
    sign = -1 if b >> (bits - 1) else 1
    ex = (b >> m) & ((1 << e) - 1)
    mant = b & ((1 << m) - 1)
    if ex == (1 << e) - 1:
        raise ValueError("inf/nan")
    if ex == 0:
        return sign * Fraction(mant) * Fraction(2) ** (1 - bias - m)
    return sign * Fraction((1 << m) | mant) * Fraction(2) ** (ex - bias - m)


def ulp_at(q: Fraction, bits: int) -> Fraction:
    """Spacing of the format at the magnitude of q."""
    e, m = _F[bits]
    bias = (1 << (e - 1)) - 1
    q = abs(q)
    if q == 0:
        return Fraction(2) ** (1 - bias - m)
    ex = q.numerator.bit_length() - q.denominator.bit_length()
    while Fraction(2) ** ex > q:
        ex -= 1
    while Fraction(2) ** (ex + 1) <= q:
        ex += 1
    return Fraction(2) ** (max(ex, 1 - bias) - m)


def bits_to_float(b: int, bits: int) -> float:
    if bits == 16:
        return struct.unpack("<e", struct.pack("<H", b))[0]
    if bits == 32:
        return struct.unpack("<f", struct.pack("<I", b))[0]
    return struct.unpack("<d", struct.pack("<Q", b))[0]


def is_exact(x: float, bits: int) -> bool:
    if x != x or math.isinf(x):
        return True
    b = float_to_bits_exact(x, bits)
    back = bits_to_float(b, bits)
    return (not math.isinf(back)) and Fraction(back) == Fraction(x)


# ------------------------------------------------------------------------------------------ encode
def _int_bits(v: int, n: int) -> typing.List[int]:
    v &= (1 << n) - 1
    return [(v >> i) & 1 for i in range(n)]


def cast_primitive(t: pydsdl.PrimitiveType, v: typing.Any) -> typing.Any:
    """The value that ends up on the wire for in-memory value v (saturation / truncation)."""
    sat = t.cast_mode == pydsdl.PrimitiveType.CastMode.SATURATED
    if isinstance(t, pydsdl.BooleanType):
        return bool(v)
    if isinstance(t, pydsdl.IntegerType):
        lo, hi = int(t.inclusive_value_range.min), int(t.inclusive_value_range.max)
        if sat:
            return min(max(int(v), lo), hi)
        n = t.bit_length
        u = int(v) & ((1 << n) - 1)
        if isinstance(t, pydsdl.SignedIntegerType) and u >> (n - 1):
            u -= 1 << n
        return u
    if isinstance(t, pydsdl.FloatType):
        v = float(v)
        if v != v or math.isinf(v):
            return v
        mx = float_max(t.bit_length)
        if abs(Fraction(v)) > mx:
            if sat:
                return math.copysign(float(mx), v)
            # truncated: conversion overflow. Values that round to the largest finite value stay finite.
            b = float_to_bits_exact(v, t.bit_length)
            return bits_to_float(b, t.bit_length)
        return v
    raise TypeError(t)


def encode(t: pydsdl.SerializableType, v: typing.Any, out: typing.Optional[typing.List[int]] = None, f16_ties: str = "even") -> typing.List[int]:
    """Appends the bits of v to out. Raises ReprError for unrepresentable values."""
    if out is None:
        out = []

    def pad(align: int) -> None:
        while len(out) % align:
            out.append(0)

    if isinstance(t, pydsdl.VoidType):
        out.extend([0] * t.bit_length)
    elif isinstance(t, pydsdl.BooleanType):
        out.append(1 if v else 0)
    elif isinstance(t, pydsdl.IntegerType):
        out.extend(_int_bits(cast_primitive(t, v), t.bit_length))
    elif isinstance(t, pydsdl.FloatType):
        w = cast_primitive(t, v)
        out.extend(_int_bits(float_to_bits_exact(w, t.bit_length, f16_ties), t.bit_length))
    elif isinstance(t, pydsdl.FixedLengthArrayType):
        assert len(v) == t.capacity
        for x in v:
            pad(t.element_type.alignment_requirement)
            encode(t.element_type, x, out, f16_ties)
    elif isinstance(t, pydsdl.VariableLengthArrayType):
        if len(v) > t.capacity:
            raise ReprError("array_length")
        pad(t.alignment_requirement)
        out.extend(_int_bits(len(v), t.length_field_type.bit_length))
        for x in v:
            pad(t.element_type.alignment_requirement)
            encode(t.element_type, x, out, f16_ties)
    elif isinstance(t, pydsdl.DelimitedType):
        pad(t.alignment_requirement)
        inner = encode(t.inner_type, v, [], f16_ties)
        assert len(inner) % 8 == 0
        out.extend(_int_bits(len(inner) // 8, t.delimiter_header_type.bit_length))
        out.extend(inner)
    elif isinstance(t, pydsdl.UnionType):
        pad(t.alignment_requirement)
        name, val = v
        names = [f.name for f in t.fields]
        if name not in names:
            raise ReprError("union_tag")
        idx = names.index(name)
        out.extend(_int_bits(idx, t.tag_field_type.bit_length))
        ft = t.fields[idx].data_type
        pad(ft.alignment_requirement)
        encode(ft, val, out, f16_ties)
        pad(t.alignment_requirement)
    elif isinstance(t, pydsdl.StructureType):
        pad(t.alignment_requirement)
        for f in t.fields:
            pad(f.data_type.alignment_requirement)
            if isinstance(f, pydsdl.PaddingField):
                encode(f.data_type, None, out, f16_ties)
            else:
                encode(f.data_type, v[f.name], out, f16_ties)
        pad(t.alignment_requirement)
    else:
        raise TypeError(type(t))
    return out


def to_bytes(bits: typing.List[int]) -> bytes:
    bits = list(bits)
    while len(bits) % 8:
        bits.append(0)
    return bytes(sum(bits[i + j] << j for j in range(8)) for i in range(0, len(bits), 8))


# ------------------------------------------------------------------------------------------ decode
class _Reader:
    def __init__(self, data: bytes):
        self.data = data
        self.pos = 0

    def bit(self) -> int:
        i = self.pos // 8
        b = 0 if i >= len(self.data) else (self.data[i] >> (self.pos % 8)) & 1
        self.pos += 1
        return b

    def uint(self, n: int) -> int:
        return sum(self.bit() << i for i in range(n))

    def align(self, a: int) -> None:
        while self.pos % a:
            self.pos += 1

    def remaining_bytes(self) -> int:
        return max(0, len(self.data) - min(self.pos // 8, len(self.data)))


def _decode(t: pydsdl.SerializableType, r: _Reader) -> typing.Any:
    if isinstance(t, pydsdl.VoidType):
        r.pos += t.bit_length
        return None
    if isinstance(t, pydsdl.BooleanType):
        return bool(r.bit())
    if isinstance(t, pydsdl.UnsignedIntegerType):
        return r.uint(t.bit_length)
    if isinstance(t, pydsdl.SignedIntegerType):
        u = r.uint(t.bit_length)
        return u - (1 << t.bit_length) if u >> (t.bit_length - 1) else u
    if isinstance(t, pydsdl.FloatType):
        return bits_to_float(r.uint(t.bit_length), t.bit_length)
    if isinstance(t, pydsdl.FixedLengthArrayType):
        out = []
        for _ in range(t.capacity):
            r.align(t.element_type.alignment_requirement)
            out.append(_decode(t.element_type, r))
        return out
    if isinstance(t, pydsdl.VariableLengthArrayType):
        r.align(t.alignment_requirement)
        n = r.uint(t.length_field_type.bit_length)
        if n > t.capacity:
            raise ReprError("array_length")
        out = []
        for _ in range(n):
            r.align(t.element_type.alignment_requirement)
            out.append(_decode(t.element_type, r))
        return out
    if isinstance(t, pydsdl.DelimitedType):
        r.align(t.alignment_requirement)
        hdr = r.uint(t.delimiter_header_type.bit_length)
        assert r.pos % 8 == 0
        if hdr > r.remaining_bytes():
            raise ReprError("delimiter_header")
        start = r.pos // 8
        sub = _Reader(r.data[start : start + hdr])
        v = _decode(t.inner_type, sub)
        r.pos += hdr * 8
        return v
    if isinstance(t, pydsdl.UnionType):
        r.align(t.alignment_requirement)
        tag = r.uint(t.tag_field_type.bit_length)
        if tag >= len(t.fields):
            raise ReprError("union_tag")
        f = t.fields[tag]
        r.align(f.data_type.alignment_requirement)
        v = _decode(f.data_type, r)
        r.align(t.alignment_requirement)
        return (f.name, v)
    if isinstance(t, pydsdl.StructureType):
        r.align(t.alignment_requirement)
        out = {}
        for f in t.fields:
            r.align(f.data_type.alignment_requirement)
            v = _decode(f.data_type, r)
            if not isinstance(f, pydsdl.PaddingField):
                out[f.name] = v
        r.align(t.alignment_requirement)
        return out
    raise TypeError(type(t))


def decode(t: pydsdl.CompositeType, data: bytes) -> typing.Tuple[typing.Any, int]:
    """Top-level decode: returns (value, consumed_bytes) with consumed = min(ceil(bits/8), len(data))."""
    r = _Reader(data)
    top = t.inner_type if isinstance(t, pydsdl.DelimitedType) else t  # top-level objects carry no delimiter header
    v = _decode(top, r)
    return v, min((r.pos + 7) // 8, len(data))


def encode_top(t: pydsdl.CompositeType, v: typing.Any, f16_ties: str = "even") -> bytes:
    top = t.inner_type if isinstance(t, pydsdl.DelimitedType) else t
    return to_bytes(encode(top, v, [], f16_ties))
