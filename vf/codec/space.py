"""
E2 dsdlspace (codec layers L1-L5): a bounded universe of DSDL definitions written as real .dsdl files, and per-type
boundary value alphabets.  Everything is a pure function of (tier, seed-slice predicate).
"""
from __future__ import annotations

import itertools
import math
import typing

import pydsdl

from vf.codec import ref

QUICK_WIDTHS = [1, 2, 3, 7, 8, 9, 13, 15, 16, 17, 24, 31, 32, 33, 48, 63, 64]


class TypeDef(typing.NamedTuple):
    name: str  # short name, unique in the universe
    layer: str
    body: str  # DSDL text
    core: bool  # part of the fixed quick core
    deps: typing.Tuple[str, ...] = ()  # short names of helper types (same namespace)


def _prims(thorough: bool) -> typing.List[typing.Tuple[str, str, bool]]:
    """(tag, dsdl type expr, core)"""
    out = []
    widths = range(1, 65) if thorough else QUICK_WIDTHS
    corew = {1, 7, 8, 9, 15, 16, 17, 24, 31, 32, 33, 48, 63, 64}  # every width adjacent to a storage-type boundary
    for n in widths:
        c = n in corew
        out.append((f"us{n}", f"saturated uint{n}", c))
        out.append((f"ut{n}", f"truncated uint{n}", c))
        if n >= 2:
            out.append((f"is{n}", f"saturated int{n}", c))
    out.append(("b", "bool", True))
    for w in (16, 32, 64):
        out.append((f"fs{w}", f"saturated float{w}", True))
        out.append((f"ft{w}", f"truncated float{w}", w == 16))
    return out  # byte / utf8 are only valid as array elements: see L2


def universe(thorough: bool, big: bool = False) -> typing.List[TypeDef]:
    """big=True adds the L2x types (arrays with thousands of elements): only the checks without per-byte sweeps ask for them."""
    out: typing.List[TypeDef] = []
    # ---- L1 primitive x bit offset x neighbours
    for tag, expr, c in _prims(thorough):
        for k in range(0, 8):
            for kind in ("v", "u"):
                if k == 0 and kind == "u":
                    continue
                core = c and ((k, kind) in ((0, "v"), (1, "v"), (5, "u"), (7, "v")))
                if not thorough and not ((k, kind) in ((0, "v"), (1, "v"), (5, "u"), (7, "v"), (3, "u"), (4, "v"))):
                    continue
                pre = "" if k == 0 else (f"void{k}\n" if kind == "v" else f"truncated uint{k} p\n")
                out.append(TypeDef(f"L1{tag}k{k}{kind}", "L1", f"{pre}{expr} x\ntruncated uint3 tail\n@sealed\n", core))
    # ---- L1e: the primitive is the LAST item of the type (a store wider than the field then leaves the buffer)
    for tag, expr, c in _prims(thorough):
        out.append(TypeDef(f"L1e{tag}a", "L1", f"uint8 h\n{expr} x\n@sealed\n", c))
        if thorough or c:
            out.append(TypeDef(f"L1e{tag}u", "L1", f"truncated uint3 p\n{expr} x\n@sealed\n", False))
    # ---- L2 arrays
    elems = [("b", "bool"), ("u8", "uint8"), ("by", "byte"), ("ch", "utf8"), ("u16", "uint16"), ("ut5", "truncated uint5"), ("i13", "int13"), ("f16", "float16"), ("f32", "float32"), ("i64", "int64")]
    kinds = [("f1", "[1]"), ("f3", "[3]"), ("f9", "[9]"), ("v1", "[<=1]"), ("v3", "[<=3]"), ("v9", "[<=9]")]
    # the remaining standard-size element types (each has its own storage type / NumPy dtype / bulk-copy path)
    more = [("i8", "int8"), ("i16", "int16"), ("u32", "uint32"), ("i32", "int32"), ("u64", "uint64"), ("f64", "float64")]
    for (et, ee), (kt, ke) in itertools.product(elems + more, kinds):
        if et == "ch" and kt[0] == "f":
            continue  # utf8 is only valid as the element of a variable-length array
        for k in range(0, 8):
            core = k in (0, 3) and kt in (("f3", "v3") if (et, ee) in more else ("f3", "v3", "v9", "f9"))
            if not thorough and k not in (0, 1, 3, 7):
                continue
            pre = "" if k == 0 else f"truncated uint{k} p\n"
            out.append(TypeDef(f"L2{et}{kt}k{k}", "L2", f"{pre}{ee}{ke} x\ntruncated uint3 tail\n@sealed\n", core))
    # element types of non-standard width, one bit below / above a storage boundary (element-wise paths; the Python
    # target keeps them in NumPy arrays of the next standard width)
    for w in (2, 3, 7, 9, 15, 17, 31, 33, 63):
        for sg, se in (("i", f"int{w}"), ("us", f"uint{w}"), ("ut", f"truncated uint{w}")):
            for kt, ke in (("f3", "[3]"), ("v3", "[<=3]")):
                for k in (0, 3):
                    pre = "" if k == 0 else f"truncated uint{k} p\n"
                    core = w in (7, 15, 31, 63) and sg != "ut" and ((kt == "f3" and k == 0) or (kt == "v3" and k == 3 and w in (7, 63)))
                    out.append(TypeDef(f"L2w{sg}{w}{kt}k{k}", "L2", f"{pre}{se}{ke} x\ntruncated uint3 tail\n@sealed\n", core))
    for et, ee in (("b", "bool"), ("u8", "uint8")):
        for kt, ke in (("v255", "[<=255]"), ("v256", "[<=256]")):
            for k in (0, 1):
                pre = "" if k == 0 else f"truncated uint{k} p\n"
                out.append(TypeDef(f"L2{et}{kt}k{k}", "L2", f"{pre}{ee}{ke} x\nuint8 tail\n@sealed\n", k == 0))
    # capacities inside (2^(w-1), 2^w - 1): the length prefix (w bits) can still encode values above the capacity, although
    # capacity.bit_length() == w (a "prefix cannot exceed the capacity" shortcut keyed on the bit length is wrong here)
    for et, ee in (("b", "bool"), ("u8", "uint8"), ("i13", "int13")):
        for kt, ke in (("v128", "[<=128]"), ("v200", "[<=200]"), ("v254", "[<=254]")):
            for k in (0, 1):
                if et == "i13" and kt != "v200":
                    continue
                pre = "" if k == 0 else f"truncated uint{k} p\n"
                out.append(TypeDef(f"L2{et}{kt}k{k}", "L2", f"{pre}{ee}{ke} x\nuint8 tail\n@sealed\n", k == 0 and kt == "v200" and et != "i13"))
    if big:
        # 16- and 32-bit length prefixes (bool arrays stay small on the wire: 40000 bools = 5000 bytes)
        for et, ee, kt, ke, core in (
            ("u8", "uint8", "v300", "[<=300]", True),
            ("b", "bool", "v40000", "[<=40000]", True),
            ("b", "bool", "v32768", "[<=32768]", False),
            ("b", "bool", "v65534", "[<=65534]", False),
            ("b", "bool", "v65535", "[<=65535]", False),
            ("b", "bool", "v65536", "[<=65536]", True),
            ("u8", "uint8", "v40000", "[<=40000]", False),
        ):
            for k in (0, 1):
                pre = "" if k == 0 else f"truncated uint{k} p\n"
                out.append(TypeDef(f"L2{et}{kt}k{k}", "L2x", f"{pre}{ee}{ke} x\nuint8 tail\n@sealed\n", core and k == 0))
    # ---- L3 composition
    inners = {
        "Ie": "@sealed\n",
        "Ifs": "uint8 a\nint13 b\n@sealed\n",
        "Ivs": "uint8 a\nuint8[<=2] v\n@sealed\n",
        "Ifd": "uint8 a\nuint8 b\n@extent 64\n",
        "Ifdx": "uint8 a\nint13 b\n@extent 24\n",
        "Ivd": "uint8 a\nuint16[<=2] v\n@extent 80\n",
        "Ius": "@union\nuint8 a\nuint16[<=2] v\nbool c\n@sealed\n",
        "Iud": "@union\nuint8 a\nint13 b\n@extent 40\n",
        # delimited, variable length, extent == longest representation, last write unaligned and inside the last byte
        "Ivx": "uint8[<=2] data\nbool flag\ntruncated uint7 rest\n@extent 32\n",
        # ... and one that ends with such an object (nested forks, every level exactly full at maximum length)
        "Ivy": "uint8[<=2] d\nNS.Ivx.1.0 last\n@extent 88\n",
        # padding-only inner types (nothing to decode, but bits to skip / zero): byte-sized, sub-byte, delimited
        "Ip16": "void16\n@sealed\n",
        "Ip3": "void3\n@sealed\n",
        "Ipd": "void8\n@extent 64\n",
        # standard-width members on their natural alignment whose C struct has TAIL padding (6 / 9 bytes on the wire, 8 / 16
        # in memory), and one without; a composite that ENDS with byte-aligned padding of 3 bytes
        "Izc": "uint32 a\nuint16 b\n@sealed\n",
        "Izd": "uint64 a\nuint8 b\n@sealed\n",
        "Ize": "uint16 a\nuint16 b\n@sealed\n",
        "Ipt": "uint8 k\nvoid24\n@sealed\n",
    }
    inner_deps = {"Ivy": ("Ivx",)}
    late = ("Izc", "Izd", "Ize", "Ipt")  # added last: every use is part of the quick core, so quick and thorough see the same types
    for n, body in inners.items():
        out.append(TypeDef(n, "L3i", body, True, inner_deps.get(n, ())))
    for n in inners:
        for use, ue in (("f", ""), ("a2", "[2]"), ("v2", "[<=2]")):
            for k in (0, 3):
                pre = "" if k == 0 else f"truncated uint{k} p\n"
                out.append(TypeDef(f"L3{n}{use}k{k}", "L3", f"{pre}NS.{n}.1.0{ue} x\nuint8 tail\n@sealed\n", k == 3 or use == "f" or n in late, (n,)))
        out.append(TypeDef(f"L3{n}u", "L3", f"@union\nuint8 a\nNS.{n}.1.0 x\nNS.{n}.1.0[<=2] y\n@sealed\n", True, (n,)))
        # an alternative that is a FIXED-length array of composites (its elements own whatever the composite owns)
        out.append(TypeDef(f"L3{n}ua", "L3", f"@union\nuint8 a\nNS.{n}.1.0[2] z\nNS.{n}.1.0 x\n@sealed\n", n in ("Ivs", "Ivd", "Ius", "Ifd") or n in late, (n,)))
        # ... and as the FIRST alternative (the one a default-constructed union holds)
        out.append(TypeDef(f"L3{n}ub", "L3", f"@union\nNS.{n}.1.0[2] z\nuint8 a\n@sealed\n", n in ("Ivs", "Ius") or n in late, (n,)))
    # depth 3 nesting, delimited inside delimited inside sealed
    out.append(TypeDef("N2", "L3i", "uint8 h\nNS.Ivd.1.0 m\nNS.Iud.1.0[<=2] us\n@extent 400\n", True, ("Ivd", "Iud")))
    out.append(TypeDef("L3N3", "L3", "truncated uint3 p\nNS.N2.1.0 n\nNS.N2.1.0[<=1] ns\nuint8 tail\n@sealed\n", True, ("N2",)))
    out.append(TypeDef("L3N3d", "L3", "NS.N2.1.0 n\nuint8 tail\n@extent 2000\n", True, ("N2",)))
    # byte-aligned void fields of 17..56 bits as the LAST item of a representation (directly, and as the tail of the last
    # nested object): whatever clears them must not touch a byte behind the advertised buffer
    for w, head in ((17, "uint8"), (24, "uint8"), (40, "uint16"), (48, "uint16"), (56, "uint8")):
        out.append(TypeDef(f"L5void{w}t", "L5", f"{head} k\nvoid{w}\n@sealed\n", True))
    out.append(TypeDef("L3Iptlast", "L3", "uint16 h\nvoid16\nNS.Ipt.1.0 t\n@sealed\n", True, ("Ipt",)))
    out.append(TypeDef("L3Iptlastd", "L3", "uint16 h\nNS.Ipt.1.0[<=2] t\n@extent 160\n", True, ("Ipt",)))
    # neighbours in one generator run whose field offsets have the SAME minimum and maximum (8 and 24 bits) but are
    # byte-aligned in one type and not in the next (a, u, a, u: every chunk boundary leaves an (aligned, unaligned) pair
    # that is rendered in this order)
    out.append(TypeDef("L5of0a", "L5", "uint8[<=2] a\nfloat32 b\nuint16 c\n@sealed\n", True))
    out.append(TypeDef("L5of1u", "L5", "truncated uint4[<=4] a\nfloat32 b\nuint16 c\n@sealed\n", True))
    out.append(TypeDef("L5of2a", "L5", "uint16[<=1] a\nfloat32 b\nuint16 c\n@sealed\n", True))
    out.append(TypeDef("L5of3u", "L5", "truncated uint2[<=8] a\nfloat32 b\nuint16 c\n@sealed\n", True))
    # structures ALL of whose fields are composites (no primitive of their own): sealed + delimited members, one member only
    out.append(TypeDef("L3allc", "L3", "NS.Ifs.1.0 head\nNS.Ivd.1.0 body\n@sealed\n", True, ("Ifs", "Ivd")))
    out.append(TypeDef("L3allcd", "L3", "NS.Ifd.1.0 head\nNS.Ivd.1.0 body\nNS.Ius.1.0 u\n@extent 1200\n", True, ("Ifd", "Ivd", "Ius")))
    out.append(TypeDef("L3onec", "L3", "NS.Ivd.1.0 only\n@sealed\n", True, ("Ivd",)))
    out.append(TypeDef("L3onecf", "L3", "NS.Ifd.1.0 only\n@sealed\n", True, ("Ifd",)))
    # arrays with SEVERAL elements whose element type itself holds a composite (per-element nested objects must stay apart)
    out.append(TypeDef("Mid", "L3i", "NS.Ifs.1.0 i\nuint8 t\n@sealed\n", True, ("Ifs",)))
    out.append(TypeDef("Mu", "L3i", "@union\nNS.Ifs.1.0 c\nuint8 a\n@sealed\n", True, ("Ifs",)))
    out.append(TypeDef("L3Mida3", "L3", "NS.Mid.1.0[3] x\nuint8 tail\n@sealed\n", True, ("Mid",)))
    out.append(TypeDef("L3Midv3", "L3", "truncated uint3 p\nNS.Mid.1.0[<=3] x\nuint8 tail\n@sealed\n", True, ("Mid",)))
    out.append(TypeDef("L3Mua2", "L3", "NS.Mu.1.0[2] x\nNS.Mu.1.0[<=2] y\n@sealed\n", True, ("Mu",)))
    out.append(TypeDef("L3N3a", "L3", "NS.N2.1.0[2] ns\nuint8 tail\n@sealed\n", True, ("N2",)))
    # ---- L4 unions: all ordered pairs of alternatives
    alts = [("b", "bool"), ("u3", "truncated uint3"), ("i13", "int13"), ("f16", "float16"), ("v8", "uint8[<=3]"), ("vb", "bool[<=9]"), ("cf", "NS.Ifs.1.0"), ("cv", "NS.Ivd.1.0")]
    for (a, ae), (b, be) in itertools.product(alts, alts):
        deps = tuple(sorted({x.split(".")[1] for x in (ae, be) if x.startswith("NS.")}))
        out.append(TypeDef(f"L4{a}_{b}", "L4", f"@union\n{ae} a\n{be} b\n@sealed\n", a in ("b", "v8", "cv") or b in ("f16", "vb"), deps))
    out.append(TypeDef("L4three", "L4", "@union\nuint8 a\nint13 b\nNS.Ivs.1.0 c\n@sealed\n", True, ("Ivs",)))
    out.append(TypeDef("L4three_d", "L4", "@union\nuint8 a\nint13[2] b\nNS.Ivs.1.0 c\n@extent 128\n", True, ("Ivs",)))
    # option counts at the boundary of the 8-bit tag: 255, 256 (= 2^8: "count" no longer fits the tag type), 257 (16-bit tag)
    out.append(TypeDef("L4big256", "L4", "@union\n" + "".join(f"uint8 a{i}\n" for i in range(255)) + "uint16 last\n@sealed\n", True))
    if thorough:
        out.append(TypeDef("L4big255", "L4", "@union\n" + "".join(f"uint8 a{i}\n" for i in range(254)) + "uint16 last\n@sealed\n", False))
        big = "@union\n" + "".join(f"uint8 a{i}\n" for i in range(256)) + "uint16 last\n@sealed\n"
        out.append(TypeDef("L4big257", "L4", big, False))
    # ---- L5 misc: mixed struct with many kinds (maximally wide), empty, constants-only
    # padding only: nothing to store, but a non-empty wire representation (sizes, buffer checks, zero fill still apply)
    out.append(TypeDef("L5void16", "L5", "void16\n@sealed\n", True))
    out.append(TypeDef("L5void3", "L5", "void3\n@sealed\n", True))
    out.append(TypeDef("L5void8d", "L5", "void8\n@extent 64\n", True))
    out.append(TypeDef("L5svcvoid", "L5", "void64\n@sealed\n---\nvoid7\n@extent 16\n", True))
    out.append(TypeDef("L5empty", "L5", "@sealed\n", True))
    out.append(TypeDef("L5emptyd", "L5", "@extent 0\n", True))
    out.append(
        TypeDef(
            "L5mix",
            "L5",
            "void3\nsaturated uint7 a\nbool[3] fb\nbool[<=9] vb\nfloat16 f\nuint16[2] fa\nint64[<=2] va\nNS.Ifd.1.0 inner\n"
            "NS.Ifd.1.0[<=2] inners\nNS.Ius.1.0 u\ntruncated float32 g\nsaturated uint5 s\nfloat64 d\nvoid1\nbool z\n@sealed\n",
            True,
            ("Ifd", "Ius"),
        )
    )
    # alignment padding after variable-length fields whose LONGEST form ends byte-aligned (a padding decision taken from the
    # maximum length alone is wrong for the shorter forms), followed by things that need byte alignment
    for tag, arr in (("b8", "bool[<=8]"), ("b16", "bool[<=16]"), ("u4x2", "truncated uint4[<=2]"), ("u3x8", "truncated uint3[<=8]"), ("b7", "bool[<=7]"), ("u2x4", "saturated uint2[<=4]")):
        out.append(TypeDef(f"L5pad{tag}c", "L5", f"{arr} v\nNS.Ifs.1.0 c\nuint8 tail\n@sealed\n", True, ("Ifs",)))
        out.append(TypeDef(f"L5pad{tag}d", "L5", f"uint8 h\n{arr} v\nNS.Ifd.1.0 c\n@sealed\n", tag in ("b8", "u4x2"), ("Ifd",)))
        out.append(TypeDef(f"L5pad{tag}a", "L5", f"{arr} v\nNS.Ifs.1.0[<=2] cs\nbool z\n@sealed\n", tag in ("b8", "u3x8"), ("Ifs",)))
        out.append(TypeDef(f"L5pad{tag}u", "L5", f"@union\n{arr} v\nNS.Ifs.1.0 c\n@sealed\n", tag == "b8", ("Ifs",)))
    out.append(TypeDef("L5padvv", "L5", "bool[<=8] v\nbool[<=8] w\nNS.Ivs.1.0 c\ntruncated uint4[<=2] q\nNS.Ifs.1.0[2] cs\n@sealed\n", True, ("Ivs", "Ifs")))
    # services: request and response are separate codec types living in one header / one Python class
    out.append(TypeDef("L5svc", "L5", "truncated uint3 p\nint13 a\nbool[<=9] f\n@sealed\n---\nNS.Ifd.1.0[<=2] r\nfloat16 h\n@extent 256\n", True, ("Ifd",)))
    out.append(TypeDef("L5svcu", "L5", "@union\nuint8 a\nuint16[<=2] v\n@sealed\n---\n@union\nbool ok\nNS.Ius.1.0 u\n@extent 64\n", True, ("Ius",)))
    out.append(TypeDef("L5const", "L5", "uint8 A = 255\nint64 B = -9223372036854775807\nfloat32 C = 1.0 / 3.0\nbool D = true\nuint8 x\n@sealed\n", True))
    return out


# ------------------------------------------------------------------------------------------ values
def leaf_values(t: pydsdl.PrimitiveType, storage: bool) -> typing.List[typing.Any]:
    """Boundary alphabet of one primitive leaf. storage=True adds values outside the DSDL range that the C/C++ storage type can hold."""
    if isinstance(t, pydsdl.BooleanType):
        return [False, True]
    if isinstance(t, pydsdl.IntegerType):
        n = t.bit_length
        lo, hi = int(t.inclusive_value_range.min), int(t.inclusive_value_range.max)
        sw = next(w for w in (8, 16, 32, 64) if w >= n)
        vals = {lo, hi, 0, 1, hi - 1}
        if isinstance(t, pydsdl.SignedIntegerType):
            vals |= {-1, lo + 1}
            slo, shi = -(1 << (sw - 1)), (1 << (sw - 1)) - 1
        else:
            vals |= {1 << (n - 1), 0xA5A5A5A5A5A5A5A5 & hi}
            slo, shi = 0, (1 << sw) - 1
        if storage and sw > n:
            vals |= {hi + 1, shi, slo, lo - 1 if lo - 1 >= slo else slo}
        return sorted(v for v in vals if slo <= v <= shi)
    if isinstance(t, pydsdl.FloatType):
        w = t.bit_length
        mx = float(ref.float_max(w))
        vals = [0.0, -0.0, 1.0, -1.0, mx, -mx, math.inf, -math.inf, math.nan, 0.5, -2.0]
        tiny = {16: 2.0**-24, 32: 2.0**-149, 64: 5e-324}[w]
        vals += [tiny, -tiny]
        if w == 16:
            vals += [2.0**-14, 1024.0, 0.333251953125]  # exactly representable
            if storage:
                vals += [65536.0, -1e9, 3.4028234663852886e38]  # out of the float16 range: saturate / overflow
        if w == 32 and storage:
            pass  # the storage type is float: nothing outside the wire range exists
        return vals
    raise TypeError(t)


def f16_inexact_values() -> typing.List[float]:
    """For C03 only: per binade one value just below, exactly at and just above a rounding tie (as exact singles)."""
    out = []
    for e in (-24, -20, -15, -14, -1, 0, 5, 14, 15):
        ulp = 2.0 ** (max(e, -14) - 10)
        base = 2.0**e if e >= -14 else 2.0**-24 * 3
        for mant in (0, 1, 2):
            x = base + mant * ulp
            for d in (-1, 0, 1):
                v = x + ulp / 2 + d * ulp / 64
                out += [v, -v]
    return out


def values_of(t: pydsdl.SerializableType, storage: bool, budget: int = 48) -> typing.List[typing.Any]:
    """A bounded list of structured values: full product when small, else one-factor-at-a-time around two corners."""
    if isinstance(t, pydsdl.PrimitiveType) and not isinstance(t, pydsdl.VoidType):
        return leaf_values(t, storage)
    if isinstance(t, pydsdl.ArrayType):
        ev = values_of(t.element_type, storage, budget=8)
        if isinstance(t, pydsdl.FixedLengthArrayType):
            lens = [t.capacity]
        else:
            lens = sorted({0, 1, max(t.capacity - 1, 0), t.capacity})
            lens = [n for n in lens if n <= t.capacity]
        out = []
        for n in lens:
            if n == 0:
                out.append([])
                continue
            # rotate through the element alphabet so every element value appears at several positions
            for r in range(min(len(ev), 4 if n > 3 else len(ev))):
                out.append([ev[(r + i * 3) % len(ev)] for i in range(n)])
        out = out[: max(budget, 8)]
        if isinstance(t, pydsdl.VariableLengthArrayType) and getattr(t, "string_like", False) and t.capacity >= 3:
            # texts: valid UTF-8 that is NOT in a Unicode normal form (OHM SIGN, e + COMBINING ACUTE), a composed letter,
            # printable ASCII, an invalid sequence - byte for byte what a text-aware conversion must hand back
            for text in ([0xE2, 0x84, 0xA6], [0x65, 0xCC, 0x81], [0xC3, 0xA9, 0x41], [0x61, 0x62, 0x63], [0xFF, 0xC3, 0x28]):
                out.append(text[: t.capacity])
        return out
    if isinstance(t, pydsdl.DelimitedType):
        return values_of(t.inner_type, storage, budget)
    if isinstance(t, pydsdl.UnionType):
        out = []
        for f in t.fields:
            for v in values_of(f.data_type, storage, budget=max(4, budget // max(1, len(t.fields)))):
                out.append((f.name, v))
        return out
    if isinstance(t, pydsdl.StructureType):
        fields = [f for f in t.fields if not isinstance(f, pydsdl.PaddingField)]
        if not fields:
            return [{}]
        per = [values_of(f.data_type, storage, budget=12) for f in fields]
        total = 1
        for p in per:
            total *= len(p)
        out = []
        if total <= budget * 4:
            for combo in itertools.product(*per):
                out.append({f.name: v for f, v in zip(fields, combo)})
        else:
            for corner in (0, -1):
                base = [p[corner] for p in per]
                out.append({f.name: v for f, v in zip(fields, base)})
                for i, p in enumerate(per):
                    for v in p:
                        row = list(base)
                        row[i] = v
                        out.append({f.name: x for f, x in zip(fields, row)})
        return out
    raise TypeError(type(t))


def invalid_values(t: pydsdl.CompositeType) -> typing.List[typing.Tuple[str, typing.Any]]:
    """(kind, value) for unrepresentable objects: one variable array one element too long (first one found, top-level
    fields or union alternatives), invalid union tag is expressed at the flat level by the engine."""
    top = t.inner_type if isinstance(t, pydsdl.DelimitedType) else t
    out = []
    base = values_of(top, False)[0]
    if isinstance(top, pydsdl.StructureType):
        for f in top.fields:
            if isinstance(f.data_type, pydsdl.VariableLengthArrayType) and f.data_type.capacity < 64:
                ev = values_of(f.data_type.element_type, False, 4)
                v = dict(base)
                v[f.name] = [ev[i % len(ev)] for i in range(f.data_type.capacity + 1)]
                out.append(("array_length", v))
    elif isinstance(top, pydsdl.UnionType):
        for f in top.fields:
            if isinstance(f.data_type, pydsdl.VariableLengthArrayType) and f.data_type.capacity < 64:
                ev = values_of(f.data_type.element_type, False, 4)
                out.append(("array_length", (f.name, [ev[i % len(ev)] for i in range(f.data_type.capacity + 1)])))
    return out
