"""
C20 engine: a strict well-formedness checker over html.parser events, an event-level page comparer (non-interference
of DSDL text with markup) and a resolver for relative hyperlinks over a generated tree.

Nothing in here imports nunavut: it is the independent oracle side of the C20 check.
"""
from __future__ import annotations

import posixpath
import re
import typing
import urllib.parse
from html.parser import HTMLParser

VOID = frozenset("area base br col embed hr img input link meta param source track wbr".split())
RAW_TEXT = frozenset(("script", "style"))

# A conservatively "sane" start tag: name, then attributes that are bare, or name=value with a value that is
# double-quoted, single-quoted, or unquoted without any of the characters HTML forbids in unquoted values.
_START_RE = re.compile(
    r"""<[A-Za-z][^\s/>]*(?:\s+[^\s"'<>/=]+(?:\s*=\s*(?:"[^"]*"|'[^']*'|[^\s"'=<>`]+))?)*\s*/?>""", re.S
)
_WS = re.compile(r"\s+")


def norm_ws(s: str) -> str:
    return _WS.sub(" ", s).strip()


class Ev(typing.NamedTuple):
    kind: str  # S start tag, E end tag, T text, C comment, D declaration / processing instruction
    name: str  # tag name (S, E) or the text (T, C, D)
    attrs: typing.Tuple[typing.Tuple[str, typing.Optional[str]], ...]
    raw: bool  # text inside script/style (no entity decoding, not subject to text comparison)
    ctx: typing.Tuple[str, str]  # (region, innermost element) at the point the event occurs
    pos: typing.Tuple[int, int]


class Page:
    def __init__(self) -> None:
        self.events: typing.List[Ev] = []
        self.errors: typing.List[typing.Tuple[str, str]] = []  # (class, detail)
        self.ids: typing.List[typing.Tuple[str, str]] = []  # (id, element description)
        self.hrefs: typing.List[typing.Tuple[str, str, str]] = []  # (tag, href, element description)
        self.size = 0


def _desc(tag: str, attrs: typing.Sequence[typing.Tuple[str, typing.Optional[str]]]) -> str:
    cls = ""
    for k, v in attrs:
        if k == "class" and v:
            cls = "." + ".".join(v.split())
    return tag + cls


class _Strict(HTMLParser):
    REGION_IDS = ("sidebar", "namespaceinfo")

    def __init__(self) -> None:
        super().__init__(convert_charrefs=True)
        self.page = Page()
        # stack entries: (tag, description, region or '')
        self.stack: typing.List[typing.Tuple[str, str, str]] = []

    # -- helpers
    def _ctx(self) -> typing.Tuple[str, str]:
        region = "-"
        for _, _, r in reversed(self.stack):
            if r:
                region = r
                break
        inner = self.stack[-1][1] if self.stack else "-"
        return (region, inner)

    def _add(self, kind: str, name: str, attrs: tuple = (), raw: bool = False, ctx: typing.Optional[tuple] = None) -> None:
        ev = self.page.events
        if kind == "T" and ev and ev[-1].kind == "T" and ev[-1].raw == raw:
            last = ev[-1]
            ev[-1] = last._replace(name=last.name + name)
            return
        ev.append(Ev(kind, name, attrs, raw, ctx or self._ctx(), self.getpos()))

    def _err(self, cls: str, detail: str) -> None:
        line, col = self.getpos()
        self.page.errors.append((cls, f"{detail} at line {line} col {col}"))

    # -- events
    def _start(self, tag: str, attrs: list, self_closing: bool) -> None:
        raw = self.get_starttag_text() or ""
        if not _START_RE.fullmatch(raw):
            self._err("attribute_syntax", f"start tag {raw[:80]!r} is not cleanly quoted")
        names = [k for k, _ in attrs]
        if len(set(names)) != len(names):
            self._err("duplicate_attribute", f"start tag {raw[:80]!r}")
        at = tuple((k, v) for k, v in attrs)
        self._add("S", tag, at)
        d = _desc(tag, at)
        for k, v in at:
            if k == "id" and v is not None:
                self.page.ids.append((v, d))
            if k == "href" and v is not None:
                self.page.hrefs.append((tag, v, d))
        if tag in VOID:
            return
        if self_closing:
            self._err("self_closing_non_void", f"<{tag}/>")
            self._add("E", tag)
            return
        region = ""
        for k, v in at:
            if k == "id" and v in self.REGION_IDS:
                region = v or ""
        self.stack.append((tag, d, region))

    def handle_starttag(self, tag: str, attrs: list) -> None:
        self._start(tag, attrs, False)

    def handle_startendtag(self, tag: str, attrs: list) -> None:
        self._start(tag, attrs, True)

    def handle_endtag(self, tag: str) -> None:
        if tag in VOID:
            self._err("stray_end_tag", f"</{tag}> for a void element")
            self._add("E", tag)
            return
        open_tags = [t for t, _, _ in self.stack]
        if not open_tags or tag not in open_tags:
            self._err("stray_end_tag", f"</{tag}> with open elements {open_tags[-4:]}")
            self._add("E", tag)
            return
        if open_tags[-1] != tag:
            self._err("misnested", f"</{tag}> closes over unclosed {open_tags[open_tags.index(tag) + 1:][-4:]}")
            while self.stack[-1][0] != tag:
                self.stack.pop()
        ctx = self._ctx()  # the element being closed is the context of its own end tag
        self.stack.pop()
        self._add("E", tag, ctx=ctx)

    def handle_data(self, data: str) -> None:
        raw = bool(self.stack) and self.stack[-1][0] in RAW_TEXT
        self._add("T", data, (), raw)

    def handle_comment(self, data: str) -> None:
        self._add("C", data)

    def handle_decl(self, decl: str) -> None:
        self._add("D", decl)

    def handle_pi(self, data: str) -> None:
        self._add("D", "?" + data)

    def unknown_decl(self, data: str) -> None:
        self._add("D", "[" + data)


def parse_page(text: str) -> Page:
    p = _Strict()
    p.feed(text)
    p.close()
    if p.stack:
        p.page.errors.append(("unclosed", "elements never closed: " + " > ".join(t for t, _, _ in p.stack[-6:])))
    # drop whitespace-only text nodes (the templates emit a lot of them; the property does not speak about them)
    p.page.events = [e for e in p.page.events if not (e.kind == "T" and not e.name.strip())]
    p.page.size = len(text)
    return p.page


# ---------------------------------------------------------------------------------------------- comparison
class Divergence(typing.NamedTuple):
    effect: str  # 'markup' (tags/attributes/comments differ) or 'text' (character data differs)
    ctx: typing.Tuple[str, str]
    detail: str
    index: int = -1  # index of the base event at which the pages diverge


def _show(e: typing.Optional[Ev]) -> str:
    if e is None:
        return "<end of page>"
    if e.kind == "S":
        return "<" + e.name + "".join(f" {k}={v!r}" for k, v in e.attrs[:3]) + ">"
    if e.kind == "E":
        return f"</{e.name}>"
    return f"{e.kind}:{e.name[:60]!r}"


def compare(
    base: Page, real: Page, subs: typing.Sequence[typing.Tuple[str, str]], with_text: bool = True
) -> typing.List[Divergence]:
    """
    `base` is the page generated with plain words where `real` has the text under test; `subs` lists the
    (base string -> real string) substitutions that turn the base input into the real input.  The DSDL text is inert
    iff both pages have the same sequence of tags, attributes, comments and declarations (attribute values and
    comments with the substitutions applied) and every text node of `real` equals the substituted base text node,
    modulo white space.  With with_text=False only the markup skeleton is compared (text may differ anywhere).
    Returns at most one 'markup' divergence (comparison cannot continue after it) and all 'text' divergences before it.
    """
    out: typing.List[Divergence] = []

    def sub(s: typing.Optional[str]) -> typing.Optional[str]:
        if s is None:
            return s
        for old, new in subs:
            s = s.replace(old, new)
        return s

    b = base.events if with_text else [e for e in base.events if e.kind != "T"]
    r = real.events if with_text else [e for e in real.events if e.kind != "T"]
    n = max(len(b), len(r))
    for i in range(n):
        eb = b[i] if i < len(b) else None
        er = r[i] if i < len(r) else None
        ctx = eb.ctx if eb is not None else (b[-1].ctx if b else ("-", "-"))
        if eb is None or er is None or eb.kind != er.kind:
            out.append(Divergence("markup", ctx, f"expected {_show(eb)}, page has {_show(er)}", i))
            return out
        if eb.kind == "S":
            want = tuple((k, sub(v)) for k, v in eb.attrs)
            if eb.name != er.name or want != er.attrs:
                out.append(Divergence("markup", ctx, f"expected {_show(eb)}, page has {_show(er)}", i))
                return out
        elif eb.kind == "E":
            if eb.name != er.name:
                out.append(Divergence("markup", ctx, f"expected {_show(eb)}, page has {_show(er)}", i))
                return out
        elif eb.kind == "T":
            if eb.raw != er.raw:
                out.append(Divergence("markup", ctx, "text moved into/out of a script/style element", i))
                return out
            if norm_ws(sub(eb.name) or "") != norm_ws(er.name):
                if eb.raw:
                    out.append(Divergence("markup", ctx, "content of a script/style element depends on the DSDL text", i))
                    return out
                out.append(
                    Divergence("text", ctx, f"expected text {norm_ws(sub(eb.name) or '')[:80]!r}, page has {norm_ws(er.name)[:80]!r}", i)
                )
        else:
            if norm_ws(sub(eb.name) or "") != norm_ws(er.name):
                out.append(Divergence("markup", ctx, f"expected {_show(eb)}, page has {_show(er)}", i))
                return out
    return out


def same_events(a: Page, b: Page) -> bool:
    if len(a.events) != len(b.events):
        return False
    for x, y in zip(a.events, b.events):
        if x.kind != y.kind or x.attrs != y.attrs or x.raw != y.raw:
            return False
        if x.kind == "T":
            if norm_ws(x.name) != norm_ws(y.name):
                return False
        elif x.name != y.name:
            return False
    return True


# ---------------------------------------------------------------------------------------------- links
_SCHEME = re.compile(r"^[A-Za-z][A-Za-z0-9+.\-]*:")


def href_class(href: str) -> str:
    if _SCHEME.match(href) or href.startswith("//"):
        return "external"
    if href.startswith("/"):
        return "server_absolute"
    return "relative"


def href_form(href: str) -> str:
    path, sep, _ = href.partition("#")
    if not path:
        return "fragment_only"
    return "page_and_fragment" if sep else "page_only"


def resolve(
    page_rel: str,
    href: str,
    directories: typing.Container[str],
    index_of: typing.Optional[typing.Mapping[str, str]] = None,
) -> typing.Tuple[typing.Optional[str], str]:
    """
    Resolves a relative reference against the page's own path (both relative to the output root, POSIX separators).
    Returns (target file relative to the output root, or None when the reference leaves the output root; fragment).
    A reference that names a directory means that directory's index.html (the generator's default namespace file
    stem + extension).  When the run was configured with another namespace file stem / extension the caller passes
    `index_of` (directory -> the one namespace page the run actually produced there, found by listing the output): a
    directory reference then means that page; a directory without such an entry keeps meaning its index.html.
    """
    path, _, frag = href.partition("#")
    path = path.split("?", 1)[0]
    frag = urllib.parse.unquote(frag)
    if not path:
        return page_rel, frag
    path = urllib.parse.unquote(path)
    joined = posixpath.normpath(posixpath.join(posixpath.dirname(page_rel), path))
    if joined == ".." or joined.startswith("../") or joined.startswith("/"):
        return None, frag
    if joined == ".":
        joined = ""
    if path.endswith("/") or joined in directories or joined == "":
        if index_of is not None and joined in index_of:
            joined = index_of[joined]
        else:
            joined = posixpath.join(joined, "index.html")
    return joined, frag


_TYPE_PAGE = re.compile(r"^.+_\d+_\d+(\.[^/]*)?$")


def is_type_page(rel: str) -> bool:
    """Type pages are named <short name>_<major>_<minor><extension>; every other generated file is a namespace page."""
    return bool(_TYPE_PAGE.match(rel.rsplit("/", 1)[-1]))


def namespace_pages(rels: typing.Iterable[str]) -> typing.Dict[str, str]:
    """directory -> its namespace page, for every directory that holds exactly one generated file that is no type page."""
    per: typing.Dict[str, typing.List[str]] = {}
    for rel in sorted(rels):
        if not is_type_page(rel):
            per.setdefault(posixpath.dirname(rel), []).append(rel)
    return {d: v[0] for d, v in per.items() if len(v) == 1}
