/*
 * C14 primitive driver: compiles as C11 (nunavut* functions of the generated serialization.h) and as C++
 * (nunavut::support::bitspan / const_bitspan of the generated serialization.hpp) through a thin adapter.
 * Enumerates the bounded space itself and compares every call with a naive bit-at-a-time reference.
 *
 * usage: driver <phase> [<max_off> <max_len> <max_size>]   phases: copy copyoverlap getbits getint setint float16rt floatxx
 *        driver f16pack <shard> <nshards>                   (all 2^32 singles, sharded)
 *        driver zeros|subspan                               (C++ only)
 * output: "CASES <n>", "NONTRIVIAL <n>", "FAIL <phase> <detail...>" (first 8 per phase+kind), exit 0 always unless
 * a sanitizer aborts.
 */
#include <stdint.h>
#include <stdio.h>
#include <stdlib.h>
#include <string.h>
#include <math.h>

#ifdef __cplusplus
#include "nunavut/support/serialization.hpp"
using namespace nunavut::support;
#define ERR_OF(r) ((r) ? 0 : -static_cast<int>((r).error()))
static void A_copyBits(uint8_t* dst, size_t dst_size, size_t dst_off, size_t len, const uint8_t* src, size_t src_size, size_t src_off)
{
    const_bitspan(src, src_size, src_off).copyTo(bitspan(dst, dst_size, dst_off), len);
}
static void A_getBits(uint8_t* out, size_t out_size, const uint8_t* buf, size_t size, size_t off, size_t len)
{
    const_bitspan(buf, size, off).getBits(bytespan(out, out_size), len);
}
static int A_setBit(uint8_t* b, size_t s, size_t o, bool v) { auto r = bitspan(b, s, o).setBit(v); return ERR_OF(r); }
static int A_setUxx(uint8_t* b, size_t s, size_t o, uint64_t v, uint8_t l) { auto r = bitspan(b, s, o).setUxx(v, l); return ERR_OF(r); }
static int A_setIxx(uint8_t* b, size_t s, size_t o, int64_t v, uint8_t l) { auto r = bitspan(b, s, o).setIxx(v, l); return ERR_OF(r); }
static bool A_getBit(const uint8_t* b, size_t s, size_t o) { return const_bitspan(b, s, o).getBit(); }
static uint8_t A_getU8(const uint8_t* b, size_t s, size_t o, uint8_t l) { return const_bitspan(b, s, o).getU8(l); }
static uint16_t A_getU16(const uint8_t* b, size_t s, size_t o, uint8_t l) { return const_bitspan(b, s, o).getU16(l); }
static uint32_t A_getU32(const uint8_t* b, size_t s, size_t o, uint8_t l) { return const_bitspan(b, s, o).getU32(l); }
static uint64_t A_getU64(const uint8_t* b, size_t s, size_t o, uint8_t l) { return const_bitspan(b, s, o).getU64(l); }
static int8_t A_getI8(const uint8_t* b, size_t s, size_t o, uint8_t l) { return const_bitspan(b, s, o).getI8(l); }
static int16_t A_getI16(const uint8_t* b, size_t s, size_t o, uint8_t l) { return const_bitspan(b, s, o).getI16(l); }
static int32_t A_getI32(const uint8_t* b, size_t s, size_t o, uint8_t l) { return const_bitspan(b, s, o).getI32(l); }
static int64_t A_getI64(const uint8_t* b, size_t s, size_t o, uint8_t l) { return const_bitspan(b, s, o).getI64(l); }
static uint16_t A_f16pack(float v) { return float16Pack(v); }
static float A_f16unpack(uint16_t v) { return float16Unpack(v); }
static int A_setF16(uint8_t* b, size_t s, size_t o, float v) { auto r = bitspan(b, s, o).setF16(v); return ERR_OF(r); }
static int A_setF32(uint8_t* b, size_t s, size_t o, float v) { auto r = bitspan(b, s, o).setF32(v); return ERR_OF(r); }
static int A_setF64(uint8_t* b, size_t s, size_t o, double v) { auto r = bitspan(b, s, o).setF64(v); return ERR_OF(r); }
static float A_getF16(const uint8_t* b, size_t s, size_t o) { return const_bitspan(b, s, o).getF16(); }
static float A_getF32(const uint8_t* b, size_t s, size_t o) { return const_bitspan(b, s, o).getF32(); }
static double A_getF64(const uint8_t* b, size_t s, size_t o) { return const_bitspan(b, s, o).getF64(); }
#define TOO_SMALL (-3)
#else
#include "nunavut/support/serialization.h"
static void A_copyBits(uint8_t* dst, size_t dst_size, size_t dst_off, size_t len, const uint8_t* src, size_t src_size, size_t src_off)
{
    (void) dst_size; (void) src_size;
    nunavutCopyBits(dst, dst_off, len, src, src_off);
}
static void A_getBits(uint8_t* out, size_t out_size, const uint8_t* buf, size_t size, size_t off, size_t len)
{
    (void) out_size;
    nunavutGetBits(out, buf, size, off, len);
}
#define A_setBit nunavutSetBit
#define A_setUxx nunavutSetUxx
#define A_setIxx nunavutSetIxx
#define A_getBit nunavutGetBit
#define A_getU8 nunavutGetU8
#define A_getU16 nunavutGetU16
#define A_getU32 nunavutGetU32
#define A_getU64 nunavutGetU64
#define A_getI8 nunavutGetI8
#define A_getI16 nunavutGetI16
#define A_getI32 nunavutGetI32
#define A_getI64 nunavutGetI64
#define A_f16pack nunavutFloat16Pack
#define A_f16unpack nunavutFloat16Unpack
#define A_setF16 nunavutSetF16
#define A_setF32 nunavutSetF32
#define A_setF64 nunavutSetF64
#define A_getF16 nunavutGetF16
#define A_getF32 nunavutGetF32
#define A_getF64 nunavutGetF64
#define TOO_SMALL (-NUNAVUT_ERROR_SERIALIZATION_BUFFER_TOO_SMALL)
#endif

static unsigned long long g_cases = 0, g_nontrivial = 0;
static int g_fail_budget = 8;
#define FAIL(...)                                \
    do {                                         \
        if (g_fail_budget > 0) {                 \
            g_fail_budget--;                     \
            printf("FAIL " __VA_ARGS__);         \
            printf("\n");                        \
        }                                        \
    } while (0)

static uint8_t* xalloc(size_t n)
{
    uint8_t* p = (uint8_t*) malloc(n);  /* exactly n bytes: ASan reports the first byte outside */
    if (p == NULL) { p = (uint8_t*) malloc(1); }
    return p;
}
static int rbit(const uint8_t* b, size_t size_bytes, size_t bit)
{
    const size_t i = bit / 8U;
    return (i >= size_bytes) ? 0 : ((b[i] >> (bit % 8U)) & 1);
}
static void wbit(uint8_t* b, size_t bit, int v)
{
    if (v) { b[bit / 8U] = (uint8_t)(b[bit / 8U] | (1U << (bit % 8U))); }
    else { b[bit / 8U] = (uint8_t)(b[bit / 8U] & ~(1U << (bit % 8U))); }
}
static void fill(uint8_t* b, size_t n, int pattern)
{
    uint32_t x = 0x2545F491U;
    for (size_t i = 0; i < n; i++) {
        switch (pattern) {
        case 0: b[i] = 0x00; break;
        case 1: b[i] = 0xFF; break;
        case 2: b[i] = (uint8_t)(0xA5U ^ (uint8_t)(i * 0x3BU)); break;
        default: x ^= x << 13; x ^= x >> 17; x ^= x << 5; b[i] = (uint8_t) x; break;
        }
    }
}
static void hex(const uint8_t* b, size_t n, char* out)
{
    for (size_t i = 0; i < n; i++) { sprintf(out + 2 * i, "%02x", b[i]); }
    out[2 * n] = 0;
}

/* ------------------------------------------------------------------ copyBits */
static void phase_copy(size_t max_off, size_t max_len)
{
    char h1[600], h2[600];
    for (size_t so = 0; so <= max_off; so++)
        for (size_t dof = 0; dof <= max_off; dof++)
            for (size_t len = 0; len <= max_len; len++)
                for (int pat = 0; pat < 4; pat++) {
                    const size_t ssize = (so + len + 7U) / 8U, dsize = (dof + len + 7U) / 8U;
                    uint8_t* src = xalloc(ssize);
                    uint8_t* dst = xalloc(dsize);
                    uint8_t* exp = xalloc(dsize);
                    fill(src, ssize, pat);
                    fill(dst, dsize, (pat + 1) % 4);
                    memcpy(exp, dst, dsize);
                    for (size_t i = 0; i < len; i++) { wbit(exp, dof + i, rbit(src, ssize, so + i)); }
                    A_copyBits(dst, dsize, dof, len, src, ssize, so);
                    g_cases++;
                    if (len > 0 && ((so % 8U) != 0 || (dof % 8U) != 0 || (len % 8U) != 0)) { g_nontrivial++; }
                    if (memcmp(dst, exp, dsize) != 0) {
                        hex(dst, dsize, h1); hex(exp, dsize, h2);
                        FAIL("copy src_off=%zu dst_off=%zu len=%zu pat=%d got=%s want=%s", so, dof, len, pat, h1, h2);
                    }
                    free(src); free(dst); free(exp);
                }
}

/* ------------------------------------------------------------------ copyBits, source and destination OVERLAPPING
 * The documented contract defines overlap for byte-aligned offsets ("invokes memmove()"; undefined only when an offset
 * is not byte-aligned).  Demanded here: whole-byte lengths only - for a trailing partial byte the documentation itself
 * says the last byte is "adjusted separately" after the memmove, so nothing more than that is promised (such cases are
 * executed for memory safety and counted, not compared).  Distinct pointers (the assert build demands src != dst),
 * offsets 0 and 8 on either side; expected = the copy made through a temporary. */
static void phase_copyoverlap(size_t max_byte, size_t max_len)
{
    char h1[600], h2[600];
    const size_t size = max_byte + 1U + (max_len + 7U) / 8U + 1U;
    for (size_t sb = 1; sb <= max_byte; sb++)
        for (size_t db = 1; db <= max_byte; db++)
            for (size_t len = 0; len <= max_len; len++)
                for (int offk = 0; offk < 4; offk++) {
                    if (sb == db) { continue; }
                    const size_t so = (offk & 1) ? 8U : 0U, dof = (offk & 2) ? 8U : 0U;
                    if (sb - so / 8U == db - dof / 8U) { continue; }  /* equal pointers: excluded by the assert build */
                    uint8_t* buf = xalloc(size);
                    uint8_t* exp = xalloc(size);
                    uint8_t* tmp = xalloc(size);
                    fill(buf, size, 2 + (int) (len & 1U));
                    memcpy(exp, buf, size);
                    memcpy(tmp, buf, size);
                    for (size_t i = 0; i < len; i++) { wbit(exp, db * 8U + i, rbit(tmp, size, sb * 8U + i)); }
                    A_copyBits(buf + db - dof / 8U, size - (db - dof / 8U), dof, len, buf + sb - so / 8U, size - (sb - so / 8U), so);
                    g_cases++;
                    const size_t nbytes = (len + 7U) / 8U;
                    const int overlap = (sb < db) ? (sb + nbytes > db) : (db + nbytes > sb);
                    if (len > 0 && overlap) { g_nontrivial++; }
                    if ((len % 8U) == 0U && memcmp(buf, exp, size) != 0) {
                        hex(buf, size, h1); hex(exp, size, h2);
                        FAIL("copyoverlap src_byte=%zu dst_byte=%zu src_off=%zu dst_off=%zu len=%zu got=%s want=%s", sb, db, so, dof, len, h1, h2);
                    }
                    free(buf); free(exp); free(tmp);
                }
}

/* ------------------------------------------------------------------ getBits */
static void phase_getbits(size_t max_off, size_t max_len, size_t max_size)
{
    char h1[600], h2[600];
    for (size_t off = 0; off <= max_off; off++)
        for (size_t len = 0; len <= max_len; len++)
            for (size_t size = 0; size <= max_size; size++)
                for (int pat = 1; pat < 4; pat++) {
                    const size_t osize = (len + 7U) / 8U;
                    uint8_t* buf = xalloc(size);
                    uint8_t* out = xalloc(osize);
                    uint8_t* exp = xalloc(osize);
                    fill(buf, size, pat);
                    memset(out, 0xFF, osize);
                    memset(exp, 0, osize);
                    for (size_t i = 0; i < len; i++) { wbit(exp, i, rbit(buf, size, off + i)); }
                    A_getBits(out, osize, buf, size, off, len);
                    g_cases++;
                    if (off + len > size * 8U) { g_nontrivial++; }
                    if (memcmp(out, exp, osize) != 0) {
                        hex(out, osize, h1); hex(exp, osize, h2);
                        FAIL("getbits off=%zu len=%zu size=%zu pat=%d got=%s want=%s", off, len, size, pat, h1, h2);
                    }
                    free(buf); free(out); free(exp);
                }
}

/* ------------------------------------------------------------------ getUxx / getIxx / getBit */
static uint64_t ref_get(const uint8_t* b, size_t size, size_t off, unsigned len, unsigned width, int is_signed)
{
    const unsigned n = (len < width) ? len : width;
    uint64_t v = 0;
    for (unsigned i = 0; i < n; i++) { v |= ((uint64_t) rbit(b, size, off + i)) << i; }
    if (is_signed && n > 0 && n < 64 && ((v >> (n - 1U)) & 1U)) { v |= ~((((uint64_t) 1) << n) - 1U); }
    if (width < 64) { v &= ((((uint64_t) 1) << width) - 1U); }
    return v;
}
static void phase_getint(size_t max_off, size_t max_len, size_t max_size)
{
    for (size_t off = 0; off <= max_off; off++)
        for (size_t len = 0; len <= max_len; len++)
            for (size_t size = 0; size <= max_size; size++)
                for (int pat = 1; pat < 4; pat++) {
                    uint8_t* buf = xalloc(size);
                    fill(buf, size, pat);
                    const uint8_t l = (uint8_t) len;
                    const uint64_t got[8] = {
                        A_getU8(buf, size, off, l), A_getU16(buf, size, off, l), A_getU32(buf, size, off, l),
                        A_getU64(buf, size, off, l),
                        (uint8_t) A_getI8(buf, size, off, l), (uint16_t) A_getI16(buf, size, off, l),
                        (uint32_t) A_getI32(buf, size, off, l), (uint64_t) A_getI64(buf, size, off, l)};
                    static const unsigned widths[4] = {8, 16, 32, 64};
                    for (int k = 0; k < 8; k++) {
                        const unsigned w = widths[k % 4];
                        const int sg = k >= 4;
                        const unsigned n = (len < w) ? (unsigned) len : w;
                        g_cases++;
                        if (sg && n == 1) { continue; } /* documented: one-bit signed is unspecified */
                        if (off + n > size * 8U || (sg && n < w)) { g_nontrivial++; }
                        const uint64_t want = ref_get(buf, size, off, (unsigned) len, w, sg);
                        if (got[k] != want) {
                            FAIL("get%c%u off=%zu len=%zu size=%zu pat=%d got=%llx want=%llx", sg ? 'I' : 'U', w, off, len,
                                 size, pat, (unsigned long long) got[k], (unsigned long long) want);
                        }
                    }
                    if (len == 0) {
                        g_cases++;
                        if ((A_getBit(buf, size, off) ? 1 : 0) != rbit(buf, size, off)) {
                            FAIL("getbit off=%zu size=%zu pat=%d", off, size, pat);
                        }
                    }
                    free(buf);
                }
}

/* ------------------------------------------------------------------ setUxx / setIxx / setBit */
static void phase_setint(size_t max_off, size_t max_len, size_t max_size)
{
    char h1[100], h2[100];
    for (size_t off = 0; off <= max_off; off++)
        for (size_t len = 0; len <= max_len; len++)
            for (size_t size = 0; size <= max_size; size++)
                for (int vi = 0; vi < 6; vi++)
                    for (int pat = 0; pat < 2; pat++)
                        for (int sg = 0; sg < 2; sg++) {
                            const unsigned n = (len < 64U) ? (unsigned) len : 64U;
                            uint64_t v;
                            switch (vi) {
                            case 0: v = 0; break;
                            case 1: v = 1; break;
                            case 2: v = ~(uint64_t) 0; break;
                            case 3: v = 0xA5A5A5A5A5A5A5A5ULL; break;
                            case 4: v = (n > 0) ? (((uint64_t) 1) << (n - 1U)) : 0; break;
                            default: v = 0x0123456789ABCDEFULL; break;
                            }
                            uint8_t* buf = xalloc(size);
                            uint8_t* exp = xalloc(size);
                            fill(buf, size, pat);
                            memcpy(exp, buf, size);
                            const int fits = (size * 8U) >= (off + len);
                            if (fits) {
                                for (unsigned i = 0; i < n; i++) { wbit(exp, off + i, (int) ((v >> i) & 1U)); }
                            }
                            const int rc = sg ? A_setIxx(buf, size, off, (int64_t) v, (uint8_t) len)
                                              : A_setUxx(buf, size, off, v, (uint8_t) len);
                            g_cases++;
                            if (!fits || ((off % 8U) != 0) || ((len % 8U) != 0)) { g_nontrivial++; }
                            if (rc != (fits ? 0 : TOO_SMALL) || memcmp(buf, exp, size) != 0) {
                                hex(buf, size, h1); hex(exp, size, h2);
                                FAIL("set%cxx off=%zu len=%zu size=%zu v=%llx pat=%d rc=%d want_rc=%d got=%s want=%s",
                                     sg ? 'I' : 'U', off, len, size, (unsigned long long) v, pat, rc, fits ? 0 : TOO_SMALL, h1, h2);
                            }
                            if (len == 1 && vi < 2 && sg == 0) {
                                fill(buf, size, pat);
                                memcpy(exp, buf, size);
                                const int fit1 = (size * 8U) > off;
                                if (fit1) { wbit(exp, off, (int) v); }
                                const int rc1 = A_setBit(buf, size, off, v != 0);
                                g_cases++;
                                if (rc1 != (fit1 ? 0 : TOO_SMALL) || memcmp(buf, exp, size) != 0) {
                                    FAIL("setbit off=%zu size=%zu v=%d pat=%d rc=%d", off, size, (int) v, pat, rc1);
                                }
                            }
                            free(buf); free(exp);
                        }
}

/* ------------------------------------------------------------------ float16 */
static uint32_t f2u(float f) { uint32_t u; memcpy(&u, &f, 4); return u; }
static float u2f(uint32_t u) { float f; memcpy(&f, &u, 4); return f; }
static uint64_t d2u(double f) { uint64_t u; memcpy(&u, &f, 8); return u; }
static double u2d(uint64_t u) { double f; memcpy(&f, &u, 8); return f; }

/* exact: magnitude bits of a finite single -> floor half pattern (lo) and whether exact; >= 2^16 gives lo=0x7C00 */
static uint32_t half_floor(uint32_t mag, int* exact)
{
    const int e = (int) (mag >> 23);
    const uint32_t m = mag & 0x7FFFFFU;
    if (e == 0) { *exact = (m == 0); return 0; }
    const int k = e - 127;
    if (k >= 16) { *exact = 1; return 0x7C00U; }
    if (k >= -14) { *exact = ((m & 0x1FFFU) == 0); return ((uint32_t) (k + 15) << 10) | (m >> 13); }
    const int shift = -(k + 1); /* value in units of 2^-24 = (2^23+m) >> shift */
    const uint32_t full = 0x800000U | m;
    if (shift >= 32) { *exact = 0; return 0; }
    *exact = ((full & ((1U << shift) - 1U)) == 0);
    return full >> shift;
}
static void phase_f16pack(unsigned shard, unsigned nshards)
{
    /* all 2^32 singles, split by the top bits so each shard is a contiguous ascending range of magnitudes */
    const uint64_t total = 1ULL << 32;
    const uint64_t lo = total / nshards * shard, hi = (shard + 1 == nshards) ? total : total / nshards * (shard + 1);
    uint32_t prev_out = 0;
    int have_prev = 0;
    for (uint64_t x = lo; x < hi; x++) {
        const uint32_t bits = (uint32_t) x;
        const uint32_t sign = bits >> 31, mag = bits & 0x7FFFFFFFU;
        const uint16_t out = A_f16pack(u2f(bits));
        const uint32_t omag = out & 0x7FFFU;
        g_cases++;
        if (mag > 0x7F800000U) { /* NaN */
            if (!((omag & 0x7C00U) == 0x7C00U && (omag & 0x3FFU) != 0)) { FAIL("f16pack nan in=%08x out=%04x", bits, out); }
            have_prev = 0;
            continue;
        }
        if ((uint32_t) (out >> 15) != sign) { FAIL("f16pack sign in=%08x out=%04x", bits, out); }
        if (mag == 0x7F800000U) {
            if (omag != 0x7C00U) { FAIL("f16pack inf in=%08x out=%04x", bits, out); }
        } else {
            int exact = 0;
            const uint32_t fl = half_floor(mag, &exact);
            const uint32_t ce = exact ? fl : fl + 1U;
            if (!exact) { g_nontrivial++; }
            if (omag != fl && omag != ce) { FAIL("f16pack unfaithful in=%08x out=%04x floor=%04x ceil=%04x", bits, out, fl, ce); }
        }
        if (have_prev && omag < prev_out) { FAIL("f16pack non-monotone in=%08x out=%04x prev=%04x", bits, out, prev_out); }
        if (mag == 0) { have_prev = 0; }
        prev_out = omag;
        have_prev = 1;
    }
}
static void phase_f16rt(void)
{
    for (uint32_t h = 0; h < 65536U; h++) {
        const float f = A_f16unpack((uint16_t) h);
        const uint16_t back = A_f16pack(f);
        const uint32_t mag = h & 0x7FFFU;
        g_cases++;
        if (mag > 0x7C00U) {
            g_nontrivial++;
            if (!(f != f) || !((back & 0x7C00U) == 0x7C00U && (back & 0x3FFU) != 0)) { FAIL("f16rt nan h=%04x f=%08x back=%04x", h, f2u(f), back); }
            continue;
        }
        /* exact value of the half as a double */
        double want;
        if (mag == 0x7C00U) { want = INFINITY; }
        else if ((mag >> 10) == 0) { want = ldexp((double) (mag & 0x3FFU), -24); }
        else { want = ldexp((double) (0x400U | (mag & 0x3FFU)), (int) (mag >> 10) - 25); }
        if (h & 0x8000U) { want = -want; }
        if ((mag >> 10) == 0 || mag == 0x7C00U) { g_nontrivial++; }
        if (!((double) f == want) || (signbit(f) != 0) != ((h >> 15) != 0) || back != h) {
            FAIL("f16rt h=%04x unpack=%08x want=%a back=%04x", h, f2u(f), want, back);
        }
    }
}
static void phase_floatxx(size_t max_off)
{
    static const uint32_t v32[] = {0, 0x80000000U, 0x3F800000U, 0xBF800001U, 0x7F800000U, 0xFF800000U, 0x7FC00001U, 0x00000001U, 0x7F7FFFFFU, 0x12345678U};
    static const uint64_t v64[] = {0, 0x8000000000000000ULL, 0x3FF0000000000000ULL, 0x7FF0000000000000ULL, 0x7FF8000000000001ULL, 1ULL, 0x7FEFFFFFFFFFFFFFULL, 0x0123456789ABCDEFULL};
    static const uint16_t v16[] = {0, 0x8000, 0x3C00, 0xBC01, 0x7C00, 0xFC00, 0x0001, 0x7BFF, 0x1234};
    for (size_t off = 0; off <= max_off; off++)
        for (int pat = 0; pat < 2; pat++)
            for (size_t size = 0; size <= 12; size++) {
                for (size_t i = 0; i < sizeof(v32) / 4; i++) {
                    uint8_t* buf = xalloc(size); uint8_t* exp = xalloc(size);
                    fill(buf, size, pat); memcpy(exp, buf, size);
                    const int fits = size * 8U >= off + 32U;
                    if (fits) { for (unsigned b = 0; b < 32; b++) { wbit(exp, off + b, (int) ((v32[i] >> b) & 1U)); } }
                    const int rc = A_setF32(buf, size, off, u2f(v32[i]));
                    g_cases++; if (off % 8U) { g_nontrivial++; }
                    if (rc != (fits ? 0 : TOO_SMALL) || memcmp(buf, exp, size) != 0) { FAIL("setF32 off=%zu size=%zu v=%08x rc=%d", off, size, v32[i], rc); }
                    fill(buf, size, 3);
                    const uint32_t want = (uint32_t) ref_get(buf, size, off, 32, 32, 0);
                    const uint32_t got = f2u(A_getF32(buf, size, off));
                    g_cases++;
                    /* a signalling NaN may be quieted when passed through a float register on some ABIs: compare NaN-ness then */
                    if (got != want && !((want & 0x7FFFFFFFU) > 0x7F800000U && (got & 0x7FFFFFFFU) > 0x7F800000U)) { FAIL("getF32 off=%zu size=%zu got=%08x want=%08x", off, size, got, want); }
                    free(buf); free(exp);
                }
                for (size_t i = 0; i < sizeof(v64) / 8; i++) {
                    uint8_t* buf = xalloc(size); uint8_t* exp = xalloc(size);
                    fill(buf, size, pat); memcpy(exp, buf, size);
                    const int fits = size * 8U >= off + 64U;
                    if (fits) { for (unsigned b = 0; b < 64; b++) { wbit(exp, off + b, (int) ((v64[i] >> b) & 1U)); } }
                    const int rc = A_setF64(buf, size, off, u2d(v64[i]));
                    g_cases++;
                    if (rc != (fits ? 0 : TOO_SMALL) || memcmp(buf, exp, size) != 0) { FAIL("setF64 off=%zu size=%zu v=%016llx rc=%d", off, size, (unsigned long long) v64[i], rc); }
                    fill(buf, size, 3);
                    const uint64_t want = ref_get(buf, size, off, 64, 64, 0);
                    const uint64_t got = d2u(A_getF64(buf, size, off));
                    g_cases++;
                    if (got != want && !((want & 0x7FFFFFFFFFFFFFFFULL) > 0x7FF0000000000000ULL && (got & 0x7FFFFFFFFFFFFFFFULL) > 0x7FF0000000000000ULL)) { FAIL("getF64 off=%zu size=%zu got=%016llx want=%016llx", off, size, (unsigned long long) got, (unsigned long long) want); }
                    free(buf); free(exp);
                }
                for (size_t i = 0; i < sizeof(v16) / 2; i++) {
                    uint8_t* buf = xalloc(size); uint8_t* exp = xalloc(size);
                    fill(buf, size, pat); memcpy(exp, buf, size);
                    const int fits = size * 8U >= off + 16U;
                    if (fits) { for (unsigned b = 0; b < 16; b++) { wbit(exp, off + b, (int) ((v16[i] >> b) & 1U)); } }
                    const int rc = A_setF16(buf, size, off, A_f16unpack(v16[i]));
                    g_cases++;
                    if (rc != (fits ? 0 : TOO_SMALL) || memcmp(buf, exp, size) != 0) { FAIL("setF16 off=%zu size=%zu v=%04x rc=%d", off, size, v16[i], rc); }
                    fill(buf, size, 2);
                    const uint16_t raw = (uint16_t) ref_get(buf, size, off, 16, 16, 0);
                    const float got = A_getF16(buf, size, off);
                    const float want = A_f16unpack(raw);
                    g_cases++;
                    if (f2u(got) != f2u(want) && !(got != got && want != want)) { FAIL("getF16 off=%zu size=%zu got=%08x want=%08x", off, size, f2u(got), f2u(want)); }
                    free(buf); free(exp);
                }
            }
}

#ifdef __cplusplus
/* ------------------------------------------------------------------ C++ only: setZeros / padAndMoveToAlignment / subspan */
static void phase_zeros(size_t max_off, size_t max_len, size_t max_size)
{
    char h1[100], h2[100];
    for (size_t off = 0; off <= max_off; off++)
        for (size_t len = 0; len <= max_len; len++)
            for (size_t size = 0; size <= max_size; size++)
                for (int pat = 1; pat < 4; pat++) {
                    uint8_t* buf = xalloc(size); uint8_t* exp = xalloc(size);
                    fill(buf, size, pat); memcpy(exp, buf, size);
                    const size_t avail = (size * 8U > off) ? (size * 8U - off) : 0U;
                    const int fits = len <= avail;
                    if (fits) { for (size_t i = 0; i < len; i++) { wbit(exp, off + i, 0); } }
                    auto r = bitspan(buf, size, off).setZeros(len);
                    const int rc = ERR_OF(r);
                    g_cases++;
                    if ((off % 8U) || (len % 8U)) { g_nontrivial++; }
                    if (rc != (fits ? 0 : TOO_SMALL) || memcmp(buf, exp, size) != 0) {
                        hex(buf, size, h1); hex(exp, size, h2);
                        FAIL("setzeros off=%zu len=%zu size=%zu pat=%d rc=%d got=%s want=%s", off, len, size, pat, rc, h1, h2);
                    }
                    free(buf); free(exp);
                }
    g_fail_budget = 8;
    static const size_t aligns[] = {8, 16, 32, 64};
    for (size_t off = 0; off <= max_off + 64; off++)
        for (size_t ai = 0; ai < 4; ai++)
            for (size_t size = 0; size <= max_size + 8; size++)
                for (int pat = 1; pat < 3; pat++) {
                    const size_t al = aligns[ai];
                    uint8_t* buf = xalloc(size); uint8_t* exp = xalloc(size);
                    fill(buf, size, pat); memcpy(exp, buf, size);
                    const size_t pad = (al - off % al) % al;
                    const size_t avail = (size * 8U > off) ? (size * 8U - off) : 0U;
                    const int fits = pad <= avail;
                    if (fits) { for (size_t i = 0; i < pad; i++) { wbit(exp, off + i, 0); } }
                    bitspan s(buf, size, off);
                    auto r = s.padAndMoveToAlignment(al);
                    const int rc = ERR_OF(r);
                    g_cases++;
                    if (pad) { g_nontrivial++; }
                    if (rc != (fits ? 0 : TOO_SMALL) || memcmp(buf, exp, size) != 0 || (fits && s.offset() != off + pad)) {
                        hex(buf, size, h1); hex(exp, size, h2);
                        FAIL("padalign off=%zu align=%zu size=%zu pat=%d rc=%d newoff=%zu got=%s want=%s", off, al, size, pat, rc, (size_t) s.offset(), h1, h2);
                    }
                    free(buf); free(exp);
                }
}
static void phase_subspan(size_t max_off, size_t max_size)
{
    /* any_bitspan::subspan(bits) / at_offset(bits): the view must address the same bits as the original at offset+bits,
       with zero extension beyond the end (checked through getU8 on the const view and setBit on the mutable view). */
    for (size_t off = 0; off <= max_off; off++)
        for (size_t add = 0; add <= max_off; add++)
            for (size_t size = 0; size <= max_size; size++) {
                uint8_t* buf = xalloc(size);
                fill(buf, size, 3);
                const_bitspan c(buf, size, off);
                for (unsigned l = 0; l <= 8; l++) {
                    const uint8_t want = (uint8_t) ref_get(buf, size, off + add, l, 8, 0);
                    const uint8_t g1 = c.subspan(add).getU8((uint8_t) l);
                    const uint8_t g2 = c.at_offset(add).getU8((uint8_t) l);
                    g_cases += 2;
                    if (add % 8U) { g_nontrivial++; }
                    if (g1 != want || g2 != want) { FAIL("subspan off=%zu add=%zu size=%zu len=%u sub=%02x at=%02x want=%02x", off, add, size, l, g1, g2, want); }
                }
                /* bitspan::subspan(bits_at, size_bits) has no documented contract beyond "a window of this span";
                   the only thing demanded is safety: an accepted window never extends past the buffer, and a window
                   that is accepted addresses the original bits (checked through setBit when the view has room). */
                for (size_t sb = 0; sb <= 16; sb++) {
                    bitspan m(buf, size, off);
                    auto r = m.subspan(add, sb);
                    const int fits = (off + add + sb) <= size * 8U;
                    g_cases++;
                    if (static_cast<bool>(r) && !fits) { FAIL("subspan2 accepted off=%zu at=%zu bits=%zu size=%zu", off, add, sb, size); }
                    if (r && r.value().size() > sb) { FAIL("subspan2 oversize off=%zu at=%zu bits=%zu size=%zu got=%zu", off, add, sb, size, (size_t) r.value().size()); }
                    if (r && r.value().size() > 0) {
                        uint8_t* cp = xalloc(size); memcpy(cp, buf, size);
                        const int cur = rbit(buf, size, off + add);
                        auto r2 = r.value().setBit(!cur);
                        wbit(cp, off + add, !cur);
                        if (!r2 || memcmp(cp, buf, size) != 0) { FAIL("subspan2 wrongbit off=%zu at=%zu bits=%zu size=%zu", off, add, sb, size); }
                        wbit(buf, off + add, cur);
                        free(cp);
                    }
                }
                free(buf);
            }
}
#endif

int main(int argc, char** argv)
{
    if (argc < 2) { return 2; }
    const char* ph = argv[1];
    const size_t a = (argc > 2) ? (size_t) atol(argv[2]) : 23U;
    const size_t b = (argc > 3) ? (size_t) atol(argv[3]) : 80U;
    const size_t c = (argc > 4) ? (size_t) atol(argv[4]) : 12U;
    if (!strcmp(ph, "copy")) { phase_copy(a, b); }
    else if (!strcmp(ph, "copyoverlap")) { phase_copyoverlap(a, b); }
    else if (!strcmp(ph, "getbits")) { phase_getbits(a, b, c); }
    else if (!strcmp(ph, "getint")) { phase_getint(a, b, c); }
    else if (!strcmp(ph, "setint")) { phase_setint(a, b, c); }
    else if (!strcmp(ph, "f16pack")) { phase_f16pack((unsigned) a, (unsigned) b); }
    else if (!strcmp(ph, "float16rt")) { phase_f16rt(); }
    else if (!strcmp(ph, "floatxx")) { phase_floatxx(a); }
#ifdef __cplusplus
    else if (!strcmp(ph, "zeros")) { phase_zeros(a, b, c); }
    else if (!strcmp(ph, "subspan")) { phase_subspan(a, c); }
#endif
    else { return 2; }
    printf("CASES %llu\nNONTRIVIAL %llu\n", g_cases, g_nontrivial);
    return 0;
}
