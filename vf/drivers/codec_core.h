/* Shared core of the generated codec drivers (valid C11 and C++14). The generated glue defines g_types[]. */
#ifndef CODEC_CORE_H
#define CODEC_CORE_H
#include <stdint.h>
#include <stdio.h>
#include <stdlib.h>
#include <string.h>

typedef struct { char** v; size_t n; size_t i; } Tok;
typedef struct { char* p; size_t n; size_t cap; } Out;

static const char* tok_next(Tok* t) { if (t->i >= t->n) { fprintf(stderr, "GLUE: token underrun\n"); exit(3); } return t->v[t->i++]; }
static uint64_t tok_u64(Tok* t) { return strtoull(tok_next(t), NULL, 10); }
/* count token "N" or "N:M": the count field is set to N but only M elements follow (invalid objects for C04) */
static uint64_t tok_count(Tok* t, uint64_t* follow) { const char* s = tok_next(t); char* e = NULL; const uint64_t n = strtoull(s, &e, 10); *follow = (e != NULL && *e == ':') ? strtoull(e + 1, NULL, 10) : n; return n; }
static int64_t tok_i64(Tok* t) { return strtoll(tok_next(t), NULL, 10); }
static float tok_f32(Tok* t) { const char* s = tok_next(t); uint32_t u = (uint32_t) strtoul(s + 1, NULL, 16); float f; memcpy(&f, &u, 4); return f; }
static double tok_f64(Tok* t) { const char* s = tok_next(t); uint64_t u = strtoull(s + 1, NULL, 16); double f; memcpy(&f, &u, 8); return f; }

static void out_put(Out* o, const char* s)
{
    const size_t l = strlen(s);
    if (o->n + l + 2 > o->cap) { o->cap = (o->cap + l + 2) * 2; o->p = (char*) realloc(o->p, o->cap); }
    memcpy(o->p + o->n, s, l); o->n += l; o->p[o->n++] = ' '; o->p[o->n] = 0;
}
static void out_u64(Out* o, uint64_t v) { char b[32]; snprintf(b, sizeof b, "%llu", (unsigned long long) v); out_put(o, b); }
static void out_i64(Out* o, int64_t v) { char b[32]; snprintf(b, sizeof b, "%lld", (long long) v); out_put(o, b); }
static void out_f32(Out* o, float f) { uint32_t u; char b[32]; memcpy(&u, &f, 4); snprintf(b, sizeof b, "x%08x", (unsigned) u); out_put(o, b); }
static void out_f64(Out* o, double f) { uint64_t u; char b[32]; memcpy(&u, &f, 8); snprintf(b, sizeof b, "X%016llx", (unsigned long long) u); out_put(o, b); }

typedef struct
{
    const char* name;
    void* (*create)(int prior);
    void (*destroy)(void*);
    void (*build)(void*, Tok*);
    void (*dump)(const void*, Out*);
    int (*ser)(const void*, uint8_t*, size_t*);
    int (*des)(void*, const uint8_t*, size_t*);
    void* (*clone)(const void*);          /* C++: copy construct; C: memcpy */
    void (*assign)(void*, const void*);   /* C++: copy assign; C: memcpy */
    void (*move_assign)(void*, void*);    /* C++: move assign; C: memcpy */
} TypeOps;

extern const TypeOps g_types[];
extern const size_t g_ntypes;

/* Output buffers: under ASan the block is exactly bufsize bytes (the sanitizer reports the first byte outside); in plain builds
   GUARD canary bytes follow the buffer and are verified after the call: an overrun is reported as return code -99. */
#if defined(__SANITIZE_ADDRESS__)
#define GUARD 0U
#else
#define GUARD 16U
#endif
static uint8_t* out_alloc(size_t bufsize, int fill)
{
    uint8_t* b = (uint8_t*) malloc(bufsize + GUARD);
    memset(b, fill, bufsize);
    memset(b + bufsize, 0xC3, GUARD);
    return b;
}
static int out_guard_ok(const uint8_t* b, size_t bufsize)
{
    for (size_t i = 0; i < GUARD; i++) { if (b[bufsize + i] != 0xC3U) { return 0; } }
    return 1;
}

static int hexval(char c) { return (c <= '9') ? c - '0' : ((c | 32) - 'a' + 10); }
static uint8_t* parse_hex(const char* s, size_t* n)
{
    if (s[0] == '-') { *n = 0; return (uint8_t*) malloc(0); }
    *n = strlen(s) / 2;
    uint8_t* b = (uint8_t*) malloc(*n);  /* exactly n bytes: the first byte read past the declared size is an ASan report */
    for (size_t i = 0; i < *n; i++) { b[i] = (uint8_t) (hexval(s[2 * i]) * 16 + hexval(s[2 * i + 1])); }
    return b;
}
static void print_hex(const uint8_t* b, size_t n)
{
    if (n == 0) { fputs("-", stdout); return; }
    for (size_t i = 0; i < n; i++) { printf("%02x", b[i]); }
}

static int driver_main(void)
{
    char* line = NULL; size_t cap = 0; ssize_t len;
    char** tv = NULL; size_t tcap = 0;
    Out out = {NULL, 0, 0};
    while ((len = getline(&line, &cap, stdin)) > 0) {
        while (len > 0 && (line[len - 1] == '\n' || line[len - 1] == '\r')) { line[--len] = 0; }
        size_t n = 0;
        for (char* p = strtok(line, " "); p != NULL; p = strtok(NULL, " ")) {
            if (n + 1 > tcap) { tcap = (tcap + 16) * 2; tv = (char**) realloc(tv, tcap * sizeof(char*)); }
            tv[n++] = p;
        }
        if (n < 2) { continue; }
        const char cmd = tv[0][0];
        const size_t ti = (size_t) atol(tv[1]);
        if (ti >= g_ntypes) { fprintf(stderr, "GLUE: bad type index\n"); return 3; }
        const TypeOps* ops = &g_types[ti];
        if (cmd == 'S') {  /* S ti bufsize fill tokens... */
            size_t bufsize = (size_t) atol(tv[2]);
            const int fill = atoi(tv[3]);
            Tok t = {tv, n, 4};
            void* o = ops->create(1);
            ops->build(o, &t);
            uint8_t* buf = out_alloc(bufsize, fill);
            size_t size = bufsize;
            int rc = ops->ser(o, buf, &size);
            if (!out_guard_ok(buf, bufsize)) { rc = -99; }
            printf("S %d ", rc);
            if (rc >= 0) { printf("%zu ", size); print_hex(buf, size <= bufsize ? size : bufsize); }
            printf("\n");
            free(buf);
            ops->destroy(o);
        } else if (cmd == 'R') {  /* R ti bufsize fill tokens... : ser, des into a poisoned fresh object, ser again */
            size_t bufsize = (size_t) atol(tv[2]);
            const int fill = atoi(tv[3]);
            Tok t = {tv, n, 4};
            void* o = ops->create(1);
            ops->build(o, &t);
            uint8_t* buf = out_alloc(bufsize, fill);
            size_t size = bufsize;
            int rc = ops->ser(o, buf, &size);
            if (!out_guard_ok(buf, bufsize)) { rc = -99; }
            printf("R %d ", rc);
            if (rc >= 0) {
                print_hex(buf, size);
                uint8_t* exact = (uint8_t*) malloc(size);
                memcpy(exact, buf, size);
                void* o2 = ops->create(2);
                size_t dsize = size;
                const int rc2 = ops->des(o2, exact, &dsize);
                out.n = 0; if (out.p) { out.p[0] = 0; }
                if (rc2 >= 0) { ops->dump(o2, &out); }
                printf(" | %d %zu %s", rc2, dsize, (rc2 >= 0 && out.p) ? out.p : "");
                if (rc2 >= 0) {
                    memset(buf, fill ^ 0x5A, bufsize);
                    size_t size3 = bufsize;
                    const int rc3 = ops->ser(o2, buf, &size3);
                    printf("| %d ", rc3);
                    if (rc3 >= 0) { print_hex(buf, size3); }
                }
                ops->destroy(o2);
                free(exact);
            }
            printf("\n");
            free(buf);
            ops->destroy(o);
        } else if (cmd == 'D' || cmd == 'H') {  /* D ti prior hex | H ti prior op... ; op = hex | s (serialize) | c (clone+swap) | a (assign from fresh) | m (move-assign from decoded copy) */
            const int prior = atoi(tv[2]);
            void* o = ops->create(prior);
            for (size_t k = 3; k < n; k++) {
                if (cmd == 'H' && tv[k][0] == '@') {
                    const char op = tv[k][1];
                    if (op == 's') {
                        size_t size = 70000; uint8_t* buf = (uint8_t*) malloc(size);
                        const int rc = ops->ser(o, buf, &size);
                        printf("h s %d ", rc); if (rc >= 0) { print_hex(buf, size); } printf("\n");
                        free(buf);
                    } else if (op == 'c') {
                        void* c2 = ops->clone(o); ops->destroy(o); o = c2; printf("h c\n");
                    } else if (op == 'a') {
                        void* f = ops->create(0); ops->assign(o, f); ops->destroy(f); printf("h a\n");
                    } else if (op == 'm') {
                        void* c2 = ops->clone(o); void* f = ops->create(0); ops->move_assign(f, c2); ops->destroy(c2); ops->destroy(o); o = f; printf("h m\n");
                    }
                    continue;
                }
                size_t bn; uint8_t* b = parse_hex(tv[k], &bn);
                size_t size = bn;
                const int rc = ops->des(o, (bn == 0 && tv[k][1] == 'N') ? NULL : b, &size);
                out.n = 0; if (out.p) { out.p[0] = 0; }
                if (rc >= 0) { ops->dump(o, &out); }
                printf("%c %d %zu %s\n", cmd == 'D' ? 'D' : 'h', rc, size, (rc >= 0 && out.p) ? out.p : "");
                free(b);
            }
            ops->destroy(o);
            if (cmd == 'H') { printf("H end\n"); }
        } else { fprintf(stderr, "GLUE: bad command\n"); return 3; }
        fflush(stdout);
    }
    free(line); free(tv); free(out.p);
    return 0;
}
#endif
