"""
Core plumbing shared by all checks: run context, deterministic slicing, worker pool, violation handling
(known findings / replay artefacts / VIOLATION lines), evidence writing and validation.

Exit codes: 0 property held on everything explored (known findings printed), 1 violation, 2 harness error.
"""
from __future__ import annotations

import atexit
import hashlib
import json
import multiprocessing as mp
import os
import re
import pathlib
import shutil
import sys
import time
import traceback
import typing

VERIF = pathlib.Path(__file__).resolve().parent.parent
REPO = pathlib.Path(os.environ.get("VERIF_REPO", "/repo")).resolve()
DEPS = VERIF / "_deps"
EVIDENCE_SCHEMA = pathlib.Path("/root/.vp/EVIDENCE.schema.json")
KNOWN_FINDINGS = VERIF / "known_findings.json"
# evidence/ and replays/ go here (mutation sweeps redirect them so that /verif/evidence always comes from /repo itself)
OUT = pathlib.Path(os.environ.get("VERIF_OUT", str(VERIF)))


class HarnessError(Exception):
    """The harness itself failed; never a verdict."""


def setup_paths() -> None:
    """Make the working tree of REPO and the offline deps importable (idempotent)."""
    src = str(REPO / "src")
    if src in sys.path:
        sys.path.remove(src)
    sys.path.insert(0, src)
    d = str(DEPS)
    if d not in sys.path:
        sys.path.append(d)
    pp = os.environ.get("PYTHONPATH", "")
    parts = [p for p in pp.split(":") if p and p not in (src, d)]
    os.environ["PYTHONPATH"] = ":".join([src] + parts + [d])


def stable_hash(s: str) -> int:
    return int.from_bytes(hashlib.sha256(s.encode("utf-8", "surrogatepass")).digest()[:8], "big")


class Violation(typing.NamedTuple):
    sig: dict  # classification (root-cause signature); matched against known findings
    case: dict  # minimal replayable case
    what: str  # one line
    count: int = 1


class Bag:
    """Violation collector usable inside workers: keeps the smallest case and a count per signature."""

    def __init__(self) -> None:
        self.v: typing.Dict[str, Violation] = {}

    def add(self, sig: dict, case: dict, what: str, n: int = 1) -> None:
        key = json.dumps(sig, sort_keys=True, default=str)
        cur = self.v.get(key)
        if cur is None:
            self.v[key] = Violation(sig, case, what, n)
        elif _case_size(case) < _case_size(cur.case):
            self.v[key] = Violation(sig, case, what, cur.count + n)
        else:
            self.v[key] = cur._replace(count=cur.count + n)

    def merge(self, other: "Bag") -> None:
        for v in other.v.values():
            self.add(v.sig, v.case, v.what, v.count)

    def __len__(self) -> int:
        return len(self.v)


class Ctx:
    def __init__(self, pid: str, tier: str, seed: int):
        self.pid = pid
        self.tier = tier
        self.seed = seed
        self.t0 = time.time()
        base = pathlib.Path(os.environ.get("VERIF_SCRATCH", "/var/tmp"))
        self.scratch = base / f"nunavut-verif.{os.getpid()}"
        self.scratch.mkdir(parents=True, exist_ok=True)
        self._owner = os.getpid()
        atexit.register(self._cleanup)
        self.bag = Bag()
        self.samples: typing.List[typing.Any] = []
        self.stats: typing.Dict[str, typing.Any] = {}
        self.caps: typing.List[str] = []
        self.vacuity_hard: typing.List[str] = []
        self.vacuity_soft: typing.List[str] = []
        self.workers = int(os.environ.get("VERIF_WORKERS", "16"))

    # ------------------------------------------------------------------
    def _cleanup(self) -> None:
        if os.getpid() == self._owner and not os.environ.get("VERIF_KEEP"):
            shutil.rmtree(self.scratch, ignore_errors=True)

    @property
    def thorough(self) -> bool:
        return self.tier == "thorough"

    def in_slice(self, case_id: str, denom: int = 16) -> bool:
        """thorough: everything; quick: the seed-selected 1/denom slice of the thorough space."""
        if self.thorough:
            return True
        return stable_hash(case_id) % denom == self.seed % denom

    def sample(self, case: typing.Any, limit: int = 6) -> None:
        if len(self.samples) < limit:
            self.samples.append(case)

    def count(self, key: str, n: int = 1) -> None:
        self.stats[key] = self.stats.get(key, 0) + n

    def violation(self, sig: dict, case: dict, what: str, n: int = 1) -> None:
        self.bag.add(sig, case, what, n)

    def vacuity(self, problem: str, hard: bool) -> None:
        """A diversity the exploration must reach was not reached. hard: computed from the space / oracle side only -> harness
        error (exit 2) unless violations were found (a violation is always reported). soft: computed from the output under test
        (a defect or a legitimate refactoring can change it) -> recorded in the evidence only."""
        (self.vacuity_hard if hard else self.vacuity_soft).append(problem)

    def cap(self, text: str) -> None:
        if text not in self.caps:
            self.caps.append(text)

    # ------------------------------------------------------------------
    def pool_map(self, fn: typing.Callable, items: typing.Sequence, chunksize: int = 1) -> typing.List:
        """Ordered map over a fork pool (deterministic sharding: item i -> result i)."""
        items = list(items)
        if not items:
            return []
        n = min(self.workers, len(items))
        if n <= 1:
            return [fn(i) for i in items]
        ctx = mp.get_context("fork")
        with ctx.Pool(n) as pool:
            # multiprocessing.Pool waits forever for a task whose worker was killed from outside (OOM killer, memory limit):
            # watch the workers the pool started with and turn a dead one into a harness error (exit 2) instead of a hang
            started = list(getattr(pool, "_pool", []))
            res = pool.map_async(fn, items, chunksize)
            while True:
                res.wait(5)
                if res.ready():
                    return res.get()
                dead = [p for p in started if p.exitcode is not None]
                if dead:
                    raise HarnessError(f"a pool worker died while tasks were pending (exit code {dead[0].exitcode}): killed from outside?")

    # ------------------------------------------------------------------
    def finish(
        self,
        level: str,
        coverage: dict,
        assumptions: typing.Sequence[str],
        min_outcomes: typing.Optional[typing.Tuple[str, int]] = None,
    ) -> int:
        """Match violations against known findings, write replay artefacts + evidence, return exit code."""
        findings = load_known_findings(self.pid)
        reported: typing.Dict[str, Violation] = {}
        counts: typing.Dict[str, int] = {}
        known_hit: typing.Dict[str, int] = {}
        for key, v in self.bag.v.items():
            f = match_finding(findings, v)
            if f is not None:
                known_hit[f["id"]] = known_hit.get(f["id"], 0) + v.count
                if os.environ.get("VERIF_SHOW_KNOWN"):  # debugging aid: which signatures a listed finding absorbed
                    print(f"KNOWN-SIG {f['id']} {json.dumps(v.sig, sort_keys=True, default=str)}  # {v.what[:160]}")
                continue
            counts[key] = v.count
            reported[key] = v
        for f in findings:
            if f.get("status", "open") == "open":
                n = known_hit.get(f["id"], 0)
                if n:
                    print(f"KNOWN-FINDING: property={self.pid} {f['what']} [{f['id']}; {n} case(s) this run]")
        rc = 0
        rdir = OUT / "replays" / self.pid
        shown = 0
        for key, v in sorted(reported.items(), key=lambda kv: _case_size(kv[1].case)):
            rdir.mkdir(parents=True, exist_ok=True)
            h = hashlib.sha256(key.encode()).hexdigest()[:12]
            path = rdir / f"{h}.json"
            path.write_text(
                json.dumps(
                    {"property": self.pid, "sig": v.sig, "case": v.case, "what": v.what, "count": counts[key]},
                    indent=1,
                    default=str,
                )
            )
            if shown < 25:
                print(f"VIOLATION property={self.pid} replay={path}  # {v.what} (x{counts[key]})")
                shown += 1
            rc = 1
        if len(reported) > shown:
            print(f"... {len(reported) - shown} further distinct violation signatures (replays written)")
        cov = dict(coverage)
        cov.setdefault("samples", self.samples[:8] or ["<none>"])
        cov["caps_hit"] = self.caps
        if self.caps:
            cov["exhaustive"] = False  # a capped run is never reported as exhaustive, whatever the check computed
        if self.vacuity_soft:
            cov["vacuity_notes"] = self.vacuity_soft
        cov["stats"] = self.stats
        cov["known_findings_hit"] = known_hit
        ev = {
            "property_id": self.pid,
            "tier": self.tier,
            "seed": self.seed,
            "level": level,
            "coverage": cov,
            "assumptions": list(assumptions),
            "wall_s": round(time.time() - self.t0, 2),
            "violations": len(reported),
        }
        write_evidence(self.pid, ev)
        if self.vacuity_hard and rc == 0:
            raise HarnessError("vacuous exploration: " + "; ".join(self.vacuity_hard))
        if min_outcomes is not None and rc == 0:
            name, need = min_outcomes
            have = cov.get(name, 0)
            if have < need:
                raise HarnessError(f"vacuous exploration: {name}={have} < {need}")
        print(
            f"[{self.pid}] tier={self.tier} seed={self.seed} "
            + " ".join(f"{k}={v}" for k, v in cov.items() if isinstance(v, (int, bool)))
            + f" violations={len(reported)} known={sum(known_hit.values())} wall={ev['wall_s']}s"
        )
        return rc


def _case_size(case: typing.Any) -> int:
    return len(json.dumps(case, default=str))


def load_known_findings(pid: str) -> typing.List[dict]:
    if not KNOWN_FINDINGS.exists():
        return []
    doc = json.loads(KNOWN_FINDINGS.read_text())
    return [f for f in doc.get("findings", []) if f.get("property") == pid and f.get("status", "open") == "open"]


def match_finding(findings: typing.List[dict], v: Violation) -> typing.Optional[dict]:
    for f in findings:
        m = f.get("match", {})
        ok = True
        for k, want in m.items():
            have = v.sig.get(k)
            if isinstance(want, dict) and "$in" in want:
                if have not in want["$in"]:
                    ok = False
            elif isinstance(want, dict) and "$re" in want:
                if not isinstance(have, str) or re.fullmatch(want["$re"], have) is None:
                    ok = False
            elif have != want:
                ok = False
            if not ok:
                break
        if ok and m:
            return f
    return None


def write_evidence(pid: str, ev: dict) -> None:
    setup_paths()
    import jsonschema  # from /verif/_deps

    schema = json.loads(EVIDENCE_SCHEMA.read_text())
    try:
        jsonschema.validate(ev, schema)
    except jsonschema.ValidationError as e:  # pragma: no cover
        raise HarnessError(f"evidence does not validate: {e.message}") from e
    out = OUT / "evidence"
    out.mkdir(parents=True, exist_ok=True)
    (out / f"{pid}.json").write_text(json.dumps(ev, indent=1, default=str) + "\n")


def main(argv: typing.Sequence[str]) -> int:
    import argparse
    import importlib

    ap = argparse.ArgumentParser(prog="check")
    ap.add_argument("pid")
    ap.add_argument("--tier", choices=["quick", "thorough"], default=os.environ.get("VERIF_TIER", "quick"))
    ap.add_argument("--seed", type=int, default=int(os.environ.get("VERIF_SEED", "0") or 0))
    ap.add_argument("--replay")
    a = ap.parse_args(argv)
    pid = a.pid.upper()
    setup_paths()
    os.environ.setdefault("PYTHONHASHSEED", "0")
    try:
        mod = importlib.import_module(f"vf.checks.{pid.lower()}")
    except ModuleNotFoundError as e:
        print(f"no check for {pid}: {e}", file=sys.stderr)
        return 2
    ctx = Ctx(pid, a.tier, a.seed)
    try:
        if a.replay:
            doc = json.loads(pathlib.Path(a.replay).read_text())
            return int(mod.replay(ctx, doc.get("case", doc)) or 0)
        return int(mod.run(ctx))
    except HarnessError as e:
        # A guard (vacuity, self-check) failed. If violations were already recorded they are reported first: a defect that also
        # trips a guard must end as exit 1, never be hidden behind exit 2.
        if len(ctx.bag) > 0 and not a.replay:
            try:
                rc = ctx.finish(
                    "other",
                    {"explanation": f"a harness guard failed ({e}) after violations had been recorded; the violations are reported, coverage figures of this run are unavailable"},
                    [],
                )
                if rc == 1:
                    return 1
            except HarnessError:
                pass
        print(f"HARNESS-ERROR property={pid}: {e}", file=sys.stderr)
        return 2
    except Exception:  # pylint: disable=broad-except
        traceback.print_exc()
        print(f"HARNESS-ERROR property={pid}: unexpected exception", file=sys.stderr)
        return 2
