#!/venv/bin/python
"""Prints the detection tables (mutations/RESULTS.txt and seeded/*/meta.json) as markdown for DESIGN.md section 11."""
import json, pathlib, collections
V = pathlib.Path("/verif")
print("### 11.1 Mutations written while building the checks (`tools/mutation_sweep.sh`, quick tier, scratch copy)\n")
by = collections.defaultdict(list)
for ln in (V / "mutations" / "RESULTS.txt").read_text().splitlines():
    p = ln.split()
    by[p[0]].append((p[1].replace(".patch", ""), p[2]))
print("| check | mutations (all must give rc=1) |\n|---|---|")
for k in sorted(by):
    print(f"| {k} | " + ", ".join(f"`{n}` ({rc})" for n, rc in sorted(set(by[k]))) + " |")
print("\n### 11.2 Changes seeded by independent agents (saw only the property text and a scratch worktree)\n")
print("| seed | site / what it needs | caught by (quick) | history |\n|---|---|---|---|")
for d in sorted((V / "seeded").iterdir()):
    m = json.loads((d / "meta.json").read_text())
    needs = (m.get("needs") or "").replace("\n", " ").replace("|", "/")
    site = (m.get("site") or "").replace("|", "/")
    print(f"| {d.name} | {site[:110]} — {needs[:230]}{'…' if len(needs) > 230 else ''} | {', '.join(m.get('caught_by_checks_quick', [])) or '**not yet**'} | {(m.get('note') or 'caught as delivered').replace('|','/')[:330]} |")

print("\n### 11.4 Cost and coverage per check\n")
print("quick = last run recorded in `evidence/<id>.json`; thorough = last complete thorough run (`docs/THOROUGH.txt`, copied from the `vp run` logs).\n")
print("| check | level | quick: wall s / evaluations | thorough: wall s / evaluations / exhaustive within the stated bound |\n|---|---|---|---|")
import re
th = {}
for ln in (V / "docs" / "THOROUGH.txt").read_text().splitlines():
    m = re.match(r"\[(C\d\d)\] tier=thorough .*", ln)
    if m:
        kv = dict(x.split("=", 1) for x in ln.split()[1:] if "=" in x)
        th[m.group(1)] = kv  # later lines win
for f in sorted((V / "evidence").glob("C*.json")):
    e = json.loads(f.read_text())
    c = e["coverage"]
    n = c.get("evaluations") or c.get("transitions") or c.get("states")
    t = th.get(e["property_id"], {})
    tn = t.get("evaluations") or t.get("transitions") or "?"
    print(f"| {e['property_id']} | {e['level']} | {e['wall_s']} / {n} ({e['tier']}, seed {e['seed']}) | {t.get('wall', '?')} / {tn} / {t.get('exhaustive', '?')} |")
