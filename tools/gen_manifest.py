#!/venv/bin/python
"""Regenerates /verif/MANIFEST.json from the table below and validates it against the schema."""
import json
import pathlib
import sys

VERIF = pathlib.Path(__file__).resolve().parent.parent
sys.path.append(str(VERIF / "_deps"))

BASELINE_OFF = (
    "cd /repo && env -u NUNAVUT_VERIF PATH=/venv/bin:$PATH /venv/bin/python -m pytest -ra -q -p no:cacheprovider "
    "--timeout=900 --continue-on-collection-errors"
)

# id -> (category, technique, text, note, design_ref)
CHECKS = {
    "C01": (
        "exploration",
        "bounded-exhaustive enumeration of (type, value, target, option set) on compiled generated code vs reference encoder",
        "Every type of a bounded DSDL universe (every primitive kind and width 1..64 at every bit offset 0..7, arrays, nested "
        "sealed/delimited composites, unions) is generated with the working tree for C (any/little/big x asserts), C++14/17/20 "
        "and Python, compiled, and every value of a per-leaf boundary alphabet (incl. storage-range values that must "
        "saturate/truncate, NaN/inf, unrepresentable lengths/tags) is serialized; size and bytes must equal an independent "
        "reference encoder written over the PyDSDL model.",
        "PyDSDL 1.25 and vf/codec/ref.py are trusted; gcc 12 on a little-endian host; cetl flavour not executed (CETL submodule empty); value "
        "alphabets and array capacities are small (bounds in evidence).",
        "DESIGN.md section 3, C01",
    ),
    "C02": (
        "exploration",
        "bounded-exhaustive enumeration of (type, byte string, target, option set) on compiled generated code vs reference decoder",
        "For every type of the bounded universe: every valid encoding, every truncation, trailing garbage, every single-bit "
        "flip, all strings of length <=2 for tiny types and all-ones/alternating/zero strings of every length are "
        "deserialized into poisoned objects by the generated C, C++ and Python code; decoded value tree, error verdict "
        "(representation errors only) and consumed<=supplied must agree with an independent reference decoder.",
        "PyDSDL 1.25 and vf/codec/ref.py are trusted; per-type byte-string cap reported as a cap when hit; only "
        "consumed<=supplied is demanded (consumed==spec size is a statistic).",
        "DESIGN.md section 3, C02",
    ),
    "C03": (
        "exploration",
        "bounded-exhaustive relational comparison (round trip, all pairs of targets / option sets) on compiled generated code",
        "The C01/C02 cases plus inexact float16 values around every kind of rounding tie are executed under every (target, option "
        "set): C any/little/big x asserts, C++14/17/20, Python. Oracle is purely relational and independent of the reference "
        "codec: des(ser(v)) == v for in-range values, ser(des(ser(v))) == ser(v), the deserializer accepts its own serializer's "
        "output, and bytes / decoded values / error verdicts are equal for ALL pairs of configurations.",
        "Little-endian host (big-endian option only checked for equivalence); cetl flavour not executed (CETL submodule empty); one recorded "
        "finding (float16 tie rounding C/C++ vs Python) in known_findings.json.",
        "DESIGN.md section 3, C03",
    ),
    "C04": (
        "model_checking",
        "explicit enumeration of operation histories on one real destination object in ASan/UBSan/LSan builds + buffer-size / invalid-object exploration",
        "Sanitizer builds of the generated C (two option sets) and C++14 (built-in variant) / C++17 (std::variant) codecs are "
        "driven with every byte string of C02 from an exactly-sized heap block, every output buffer size 0..max+1, objects with "
        "counts/tags outside their range, and ALL sequences (depth 2 quick / 3 thorough) of des/ser (C++: copy, assign, "
        "move) operations on one object from zeroed and poisoned prior states; after every step the dump must equal the dump "
        "of a fresh decode, return codes must be documented ones, no sanitizer or leak report may appear. The array-capacity "
        "override is exercised with reduced capacities k in {1, cap-1}.",
        "gcc 12 ASan/UBSan/LSan (clang 14 in thorough) are the oracle for memory safety; histories bounded in depth and "
        "alphabet (<=5 encodings per type); trap representations of bool are never fed (harness UB).",
        "DESIGN.md section 3, C04",
    ),
    "C05": (
        "exploration",
        "bounded-exhaustive comparison of every exported constant of compiled generated code with the PyDSDL model + buffer-size sweep",
        "A compiled probe per shard prints every exported macro / trait / constant (extent, buffer size, names, port id, array "
        "capacities, union option count, DSDL constants of every primitive kind at extreme magnitudes) of the generated C and "
        "C++ code, Python reads class attributes; all must equal the PyDSDL model (float constants: exact rational rounded to the "
        "declared type within one ulp). Every output buffer size 0..max+1 is tried for three values per type: success iff the "
        "buffer holds the maximum serialized size, else buffer-too-small; size <= buffer size <= extent.",
        "PyDSDL 1.25 is the oracle; gcc 12; probes compiled with -w (diagnostics are C06's subject).",
        "DESIGN.md section 3, C05",
    ),
    "C09": (
        "exploration",
        "bounded-exhaustive token enumeration against a configuration-derived oracle",
        "Every string of length <=5 over a 12-symbol alphabet, every reserved word with variants, a witness and near-misses per "
        "reserved pattern and exotic unicode strings are passed to the real Language.filter_id, crossed with 6 id types x c/cpp/py "
        "x 5 stropping configurations; each result must be a valid unreserved identifier or an exception, identical for cold/warm "
        "cache, a fresh object and two fresh processes with other hash seeds (plus an ordinary vs a python -O process), and already-valid "
        "inputs must come back unchanged. Histories: [refused call ; next call] on one language object for every refusing configuration "
        "(incl. affixes that themselves need encoding), and ordered pairs of language configurations created in one process, each "
        "compared with the same call on a fresh object / in a fresh process.",
        "Oracle derived from properties.yaml parsed independently (+ keyword.kwlist / builtins); trusted base PyYAML, re, "
        "str.isidentifier; length bound 5.",
        "DESIGN.md section 3, C09",
    ),
    "C11": (
        "exploration",
        "bounded-exhaustive type-set x configuration x order enumeration on the real tree builder + sandboxed nnvg runs",
        "Every subset of <=4 types of a 12-type universe (depth 1-3, empty intermediates, three versions, stropped components, one "
        "stropping fold per language family) is written as real DSDL and handed to the real build_namespace_tree for 4 languages x "
        "extensions x stems x 5 output spellings x every order of the type list and forced set iteration orders; the public model "
        "API is compared with an independently computed prefix closure and path formula; for sets of <=2 types nnvg runs in a "
        "snapshotted sandbox (files created == map, nothing outside the output directory, cross-root includes hit real files). A "
        "far-end family (wide / many types / many versions / chains / grids at 31..513 around every power of two, up to 514 "
        "namespaces and the longest legal full name) runs through the same model and disk oracles.",
        "PyDSDL 1.25 and the language object's stropping of a single token (C09's subject) are trusted; one root, 12 types.",
        "DESIGN.md section 3, C11",
    ),
    "C14": (
        "exploration",
        "bounded-exhaustive enumeration of primitive calls in compiled drivers (ASan/UBSan) vs bit-at-a-time reference",
        "A driver compiled against the support header generated from the working tree (C any/little/big x asserts, C++ "
        "bitspan for c++14/17, ASan+UBSan, exactly-sized heap buffers) enumerates every (offset, length, buffer size, "
        "pattern, value) within the stated bounds for copy/get/set primitives (incl. overlapping byte-aligned copies, where the "
        "contract promises memmove semantics) and compares with a naive bit loop; float16 "
        "packing is checked on all 2^32 singles (faithful, monotone, inf/NaN) and all 2^16 halves; the Python "
        "Serializer/Deserializer run in-process against the same reference.",
        "x86-64 little-endian host, gcc 12; bounds offsets 0..23, lengths 0..80, sizes 0..12; big-endian option only "
        "checked for equivalence on this host.",
        "DESIGN.md section 3, C14",
    ),
    "C15": (
        "model_checking",
        "exhaustive enumeration of chunk schedules on the real line buffer vs. line-by-line reference model",
        "Every text up to the length bound over {a,space,TAB,CR,LF} is pushed through the real "
        "_generate_with_line_buffer under every way of cutting it into chunks (plus empty chunks) and every processor "
        "list (also two processors of one class); each execution must equal the one-chunk execution and a boring line-by-line "
        "reference. Histories [run aborted behind chunk k ; complete run] for every cut and every k, and real DSDLCodeGenerator "
        "objects (one per processor list, reused for every cut schedule, with refused renderings in between) must give the "
        "reference output too.",
        "Alphabet of 5 characters stands for all characters (whitespace / CR / LF / other are the only classes the "
        "code distinguishes); text length <= 7; processors fresh per execution.",
        "DESIGN.md section 3, C15",
    ),
}

CHECKS["C19"] = (
    "exploration",
    "bounded-exhaustive differential template rendering (bundled vs stock Jinja2) + reference-filter twin templates",
    "Every template of a 42-fragment, 10-wrapper grammar (<=3 fragments, nesting <=2, 5 flag sets, LF/CRLF, 3 contexts: 98,164 "
    "templates) is rendered by the bundled engine and by stock Jinja2 3.1.6 and must agree; every placement of the auto-indent "
    "marker (18 constructs x enclosures x leads x trails x 5 indentations) is checked against the splitlines formula and a twin "
    "template with an independent reference filter; assert and use-query tags are checked against Python evaluation over all "
    "truth assignments. Further sub-spaces: arguments of the bundled filters next to nunavut's own (indent x carriers x values), "
    "markers across template inheritance (parents / children / grandchildren, overrides, super()), markers behind every kind of "
    "predecessor tag with and without whitespace control, and compilation histories [refused / failing / truncated template ; "
    "ordinary template] over shared and fresh lexer caches.",
    "Stock Jinja2 3.1.6 is the oracle; two upstream-drift constructs are excluded and re-verified each run with the de-modified "
    "lexer; exception messages and the final line terminator of an auto-indented construct are not compared.",
    "DESIGN.md section 3, C19",
)

CHECKS["C18"] = (
    "exploration",
    "bounded-exhaustive field x candidate enumeration + explicit-state search of union setter histories on the real generated classes",
    "For every type of the bounded universe the generated Python class is imported and every field receives, through the setter and "
    "the constructor, every candidate of a boundary alphabet (min, max, min-1, max+1, +-2^70, NumPy scalars, wrong types; arrays of "
    "length 0, cap, cap+1, cap+7, fixed+-1 as list / ndarray / bytes / str / ragged lists): out-of-range and wrong-length candidates "
    "must raise ValueError and leave the stored value untouched. For unions ALL histories of <=3 valid/invalid setter events from "
    "every constructor are executed with the invariant 'exactly one option is set, and it is the expected one'. _MODEL_ is compared "
    "with the source model, get_model/get_class must round trip, and to_builtin -> update_from_builtin must serialize identically.",
    "CPython 3.12 + NumPy 2.5; out-of-range ELEMENTS of arrays are not demanded to raise; for wrong-type candidates any exception is accepted.",
    "DESIGN.md section 3, C18",
)
CHECKS["C17"] = (
    "exploration",
    "bounded-exhaustive enumeration of ordered option-set pairs; real generator + gcc/g++ -fsyntax-only",
    "For C all 48x48 ordered pairs of the documented option sets, for C++ a structured space of 476 option sets (every single-option "
    "difference, full common-option products at two profiles, an allocator sub-lattice, multi-option centre pairs): the support header "
    "of A is compiled with the type headers of B; equal sets must compile, unequal sets must be rejected by a failing static assertion "
    "naming a differing option in every type header.",
    "gcc 12 diagnostics stand for 'the build'; three fixed DSDL types; cetl shorthand excluded (CETL submodule empty); C++ multi-option "
    "differences are a structured subset.",
    "DESIGN.md section 3, C17",
)

CHECKS["C08"] = (
    "exploration",
    "exhaustive CLI option product with directory snapshots and input-mutation influence closure",
    "All 2 304 points of the option product (4 languages, 4 support modes, pod flag, namespace types, 3 template sources, extension, "
    "stem, 3 namespace sets, absolute/relative path spelling) are run through the real nnvg entry point in a sandbox; where generation "
    "succeeds the --list-outputs set is compared with the files the real run creates, the four no-write modes are checked against a full "
    "snapshot (hash, mode, size, mtime, directories) with the outdir absent and populated, and every DSDL, template and support file is "
    "mutated and regenerated: any file that changes an output byte must be named by --list-inputs. Two further families: user directory "
    "layouts (same-named templates at other depths, near-miss names) and user directory locations (10 spellings incl. .., dot-folders, "
    "symlinked parents x 4 relative placements of --templates / --support-templates). Quick: fixed cores + 1/16 slices.",
    "Three fixed small namespace sets; built-in templates are mutated through a harness wrapper of the loader, never on disk; clock fixed; "
    "one recorded finding (lookup DSDL files not listed) in known_findings.json.",
    "DESIGN.md section 3, C08",
)
CHECKS["C12"] = (
    "model_checking",
    "explicit-state BFS over output-directory snapshots with real nnvg runs as transitions (capability-dropped workers)",
    "States are canonical snapshots (path -> sha256, mode) of the output directory; every transition is a real nunavut.cli.main() run in a "
    "forked child without CAP_DAC_OVERRIDE so that uid 0 honours 0o444. The 108-event alphabet (--file-mode, --no-overwrite, "
    "--omit-serialization-support, --generate-support, line post-processors) runs on targets c and py plus 36 support-only events on cpp "
    "with a plain support resource, from 6 pre-populated initial states (foreign file, read-only and zero-length leftovers at type / "
    "support paths), in four event families (line post-processors, five ordinary modes, external program, modes 0o000 / 0o200); thorough "
    "explores every family to closure, so every history over each family's alphabet is covered. Every transition is checked against the clean-run bytes, "
    "the requested mode, untouched bystanders and the --no-overwrite contract.",
    "Clock frozen; in-process CLI (an escaping exception counts as a reported failure); two-type namespace, umask 022; read-only "
    "directories and symlinks out of scope; quick explores depth 2 over a 24-event core + seed slice.",
    "DESIGN.md section 3, C12",
)
CHECKS["C20"] = (
    "exploration",
    "bounded-exhaustive doc-string x type-graph generation judged by a strict HTML parser, base-page comparison and link resolution",
    "Every string of <=3 tokens over a 16-token HTML-hostile alphabet is placed at 7 doc-comment positions, 21 strings at every doc slot "
    "of 10 type graphs, plus 198 link graphs, 58 name shapes (also for services), attribute counts 0..257 around every power of two, "
    "deprecated types in every position, page-naming options (stems x extensions) and 20 constant expressions; every case is generated by the real html target. "
    "Every page is judged for strict well-formedness, for markup identity with a plain-word base page plus exact text delivery, and every "
    "relative href is resolved against the generated tree (file exists and contains the id). Thorough: 31 655 namespaces, 79 646 pages.",
    "PyDSDL 1.25 and CPython's html.parser are trusted; duplicate ids are a statistic (not demanded by the statement); server-absolute and "
    "external hrefs are counted, not judged.",
    "DESIGN.md section 3, C20",
)

CHECKS["C13"] = (
    "model_checking",
    "explicit-state search over merge and builder histories against an independent reference precedence model",
    "Every sequence of <=3 sources over bounded universes of nested maps (depth <=3, keys a,b, explicit / default / list / map leaves) is "
    "merged with the real deep_update and compared with a reference merge, and every source with its pristine form. Every history of <=4 "
    "real builder calls (+ final create) on one builder and two-builder histories of <=2+<=3 events, each in a fresh interpreter over 3 YAML "
    "documents x 7 override values x {c, cpp, py} (incl. two files in one call and a scalar between two maps), plus the CLI product flags x "
    "standard x file lists (every order, repeated files, path aliases) x explicit endianness values: everything a created context "
    "reports (sections, get_option, get_config_value*, a non-target Language object, probe template, --list-configuration) is compared with the reference precedence, and "
    "earlier contexts are re-observed after every later event.",
    "Alphabets stand for all configurations; re-create on the same builder is modelled as cumulative (same-builder sharing is a statistic); "
    "built-in defaults are read from properties.yaml by the harness; PyYAML is trusted.",
    "DESIGN.md section 3, C13",
)
CHECKS["C16"] = (
    "model_checking",
    "explicit-state search over template-lookup histories + exhaustive configuration and name enumeration",
    "For all 31 classes reachable from pydsdl.Any, every pair of subsets of ancestor-named templates in a real user directory and a stub "
    "built-in package, both search policies, permuted directory listings and two layouts, the real DSDLTemplateLoader is searched over lookup "
    "histories to the fixpoint (plus unabstracted histories of <=2 lookups); every result is compared with the cold result and a BFS-distance "
    "reference and real DSDLCodeGenerators must agree. The full truth table of all instance tests and aliases, and every pristine filter, test "
    "and global name (with filter_/is_/uses_ prefixes) is enumerated through real generators of all four languages.",
    "BFS state deduplication assumes loader state lives in containers of the instance/class/module (plain <=2 histories and pristine-process "
    "confirmation do not); Jinja default globals are not treated as reserved; under two sources both 'nearest over the union' and 'user first' "
    "are accepted.",
    "DESIGN.md section 3, C16",
)

CHECKS["C06"] = (
    "exploration",
    "bounded-exhaustive namespace universe x target configuration with compilers / interpreter as oracle, failures bisected to the input feature",
    "Every case of a bounded DSDL universe (every C/C++/Python reserved word and pattern witness and standard macro as attribute (8 field kinds), "
    "type and namespace name; services, deprecated, empty and wide types, extreme constants, hostile doc comments, cross-root shapes) is "
    "generated for C, C++14/17/20/17-pmr (cetl: generate only) and Python, with serialization support enabled and omitted; every generated "
    "header is compiled alone under the project's strict flags (C also inside a C++ TU; thorough adds clang 14), every Python module is "
    "compiled and imported in a fresh interpreter with -W error, and every include/import must name a generated file.",
    "PyDSDL 1.25, gcc 12, clang 14, CPython 3.12 trusted; -fsyntax-only diagnostics only; five recorded finding classes in known_findings.json "
    "(matched on kind/feature/origin, so a new failing name inside a listed class is masked); quick = core + 1/16 slice.",
    "DESIGN.md section 3, C06",
)
CHECKS["C07"] = (
    "model_checking",
    "permuting-set schedule exploration (deviation-bounded) + ambient-tuple product on the real generator",
    "Every iteration of a hash-ordered nunavut collection is a scheduler-controlled choice point (the name 'set' is bound to a permuting set "
    "in all nunavut modules): all schedules with <=1 deviation (thorough: a restricted second deviation) are run and crossed with the full "
    "product clock x cwd x path spelling x absolute location, plus 4 hash-seed interpreters through the CLI, over ~115 configurations "
    "(9 namespaces incl. dependency chains through sibling namespaces x 7 targets x serialization on/off, + the shipped templates handed "
    "over as a user template directory whose position relative to the output directory varies); output trees are compared byte for byte with the neighbour differing in one dimension.",
    "hand-written namespaces; differing pickled models are compared structurally (only PyDSDL memo state carries the listed cause tag); PyDSDL's own sets only covered by the hash-seed runs; 3 non-interceptable set literals (argued harmless); "
    "two-deviation level restricted and sets >4 capped (reported as caps, never marked exhaustive); two recorded findings (pickled Python model).",
    "DESIGN.md section 3, C07",
)
CHECKS["C10"] = (
    "model_checking",
    "explicit-state search over generator-invocation histories (fork() as snapshot) against fresh-process references",
    "Histories of <=2 (thorough <=3) real generator invocations in one interpreter, enumerated over every dependency-closed subset x every "
    "permutation of the type list x nested-namespace iteration schedules x {c, cpp, py} x built-in / user templates x 3 post-processor lists "
    "x optional LanguageContext reuse, + generator objects used twice, configuration changes between runs, documented types in every order, "
    "and runs REFUSED half-way (template assertion inside the first / a later file) followed by the same generator object or new objects; "
    "every type file of the last event must equal the bytes generated for {t} + deps(t) in a fresh process.",
    "Depth >=2 uses reduced alphabets (caps reported); only DSDLCodeGenerator is modelled; clock frozen; a fork of an import-only interpreter "
    "stands for a fresh process (self-checked); one recorded finding (pickled Python model content).",
    "DESIGN.md section 3, C10",
)

ALL = [f"C{i:02d}" for i in range(1, 21)]


def main() -> None:
    checks = []
    for pid in ALL:
        if pid not in CHECKS:
            continue
        cat, tech, text, note, ref = CHECKS[pid]
        checks.append(
            {
                "property_id": pid,
                "quick_cmd": f"./check {pid} --tier quick",
                "thorough_cmd": f"./check {pid} --tier thorough",
                "evidence_file": f"evidence/{pid}.json",
                "replay_cmd_template": f"./check {pid} --replay {{path}}",
                "engine": "vf",
                "level_claimed": {"category": cat, "text": text, "design_ref": ref},
                "level_note": note,
                "technique": tech,
            }
        )
    man = {
        "version": 1,
        "setup_cmd": "./setup.sh",
        "hooks": {
            "guard": "NUNAVUT_VERIF",
            "enable": "no hooks: every seam is reached by harness-side interposition; checks import /repo/src directly",
            "baseline_off_cmd": BASELINE_OFF,
            "source_commits": [],
            "add_only": True,
        },
        "engines": [
            {
                "name": "vf",
                "path": "vf/",
                "serves_properties": sorted(CHECKS),
                "kind_free_text": "hand-written explicit-state / stateless bounded-exhaustive explorer in Python "
                "driving the real nunavut code and the code it generates (compiled with gcc/clang, sanitizers)",
            }
        ],
        "checks": checks,
        "notes": "Known findings and fixed defects: known_findings.json. Design and mutation results: DESIGN.md.",
        "not_applicable": [
            {"property_id": pid, "reason": "no check registered"}
            for pid in ALL
            if pid not in CHECKS
        ],
    }
    import jsonschema

    jsonschema.validate(man, json.loads(pathlib.Path("/root/.vp/MANIFEST.schema.json").read_text()))
    (VERIF / "MANIFEST.json").write_text(json.dumps(man, indent=1) + "\n")
    print(f"MANIFEST.json: {len(checks)} checks, {len(man['not_applicable'])} not claimed")


if __name__ == "__main__":
    main()
