#!/venv/bin/python
"""Regenerates /verif/MANIFEST.json from the table below and validates it against the schema."""
import json
import pathlib
import sys

VERIF = pathlib.Path(__file__).resolve().parent.parent
sys.path.append(str(VERIF / "_deps"))

BASELINE_OFF = (
    "cd /repo && env -u NUNAVUT_VERIF PATH=/venv/bin:$PATH /venv/bin/python -m pytest -ra -q -p no:cacheprovider "
    "--timeout=900 --continue-on-collection-errors"
)

# id -> (category, technique, text, note, design_ref)
CHECKS = {
    "C01": (
        "exploration",
        "bounded-exhaustive enumeration of (type, value, target, option set) on compiled generated code vs reference encoder",
        "Every type of a bounded DSDL universe (every primitive kind and width 1..64 at every bit offset 0..7, arrays, nested "
        "sealed/delimited composites, unions) is generated with the working tree for C (any/little/big x asserts), C++14/17/20 "
        "and Python, compiled, and every value of a per-leaf boundary alphabet (incl. storage-range values that must "
        "saturate/truncate, NaN/inf, unrepresentable lengths/tags) is serialized; size and bytes must equal an independent "
        "reference encoder written over the PyDSDL model.",
        "PyDSDL 1.25 and vf/codec/ref.py are trusted; gcc 12 on a little-endian host; cetl/pmr flavours not executed; value "
        "alphabets and array capacities are small (bounds in evidence).",
        "DESIGN.md section 3, C01",
    ),
    "C02": (
        "exploration",
        "bounded-exhaustive enumeration of (type, byte string, target, option set) on compiled generated code vs reference decoder",
        "For every type of the bounded universe: every valid encoding, every truncation, trailing garbage, every single-bit "
        "flip, all strings of length <=2 for tiny types and all-ones/alternating/zero strings of every length are "
        "deserialized into poisoned objects by the generated C, C++ and Python code; decoded value tree, error verdict "
        "(representation errors only) and consumed<=supplied must agree with an independent reference decoder.",
        "PyDSDL 1.25 and vf/codec/ref.py are trusted; per-type byte-string cap reported as a cap when hit; only "
        "consumed<=supplied is demanded (consumed==spec size is a statistic).",
        "DESIGN.md section 3, C02",
    ),
    "C03": (
        "exploration",
        "bounded-exhaustive relational comparison (round trip, all pairs of targets / option sets) on compiled generated code",
        "The C01/C02 cases plus inexact float16 values around every kind of rounding tie are executed under every (target, option "
        "set): C any/little/big x asserts, C++14/17/20, Python. Oracle is purely relational and independent of the reference "
        "codec: des(ser(v)) == v for in-range values, ser(des(ser(v))) == ser(v), the deserializer accepts its own serializer's "
        "output, and bytes / decoded values / error verdicts are equal for ALL pairs of configurations.",
        "Little-endian host (big-endian option only checked for equivalence); cetl/pmr flavours not executed; one recorded "
        "finding (float16 tie rounding C/C++ vs Python) in known_findings.json.",
        "DESIGN.md section 3, C03",
    ),
    "C04": (
        "model_checking",
        "explicit enumeration of operation histories on one real destination object in ASan/UBSan/LSan builds + buffer-size / invalid-object exploration",
        "Sanitizer builds of the generated C (two option sets) and C++14 (built-in variant) / C++17 (std::variant) codecs are "
        "driven with every byte string of C02 from an exactly-sized heap block, every output buffer size 0..max+1, objects with "
        "counts/tags outside their range, and ALL sequences (depth 2 quick / 3 thorough) of des/ser (C++: copy, assign, "
        "move) operations on one object from zeroed and poisoned prior states; after every step the dump must equal the dump "
        "of a fresh decode, return codes must be documented ones, no sanitizer or leak report may appear. The array-capacity "
        "override is exercised with reduced capacities k in {1, cap-1}.",
        "gcc 12 ASan/UBSan/LSan (clang 14 in thorough) are the oracle for memory safety; histories bounded in depth and "
        "alphabet (<=5 encodings per type); trap representations of bool are never fed (harness UB).",
        "DESIGN.md section 3, C04",
    ),
    "C14": (
        "exploration",
        "bounded-exhaustive enumeration of primitive calls in compiled drivers (ASan/UBSan) vs bit-at-a-time reference",
        "A driver compiled against the support header generated from the working tree (C any/little/big x asserts, C++ "
        "bitspan for c++14/17, ASan+UBSan, exactly-sized heap buffers) enumerates every (offset, length, buffer size, "
        "pattern, value) within the stated bounds for copy/get/set primitives and compares with a naive bit loop; float16 "
        "packing is checked on all 2^32 singles (faithful, monotone, inf/NaN) and all 2^16 halves; the Python "
        "Serializer/Deserializer run in-process against the same reference.",
        "x86-64 little-endian host, gcc 12; bounds offsets 0..23, lengths 0..80, sizes 0..12; big-endian option only "
        "checked for equivalence on this host.",
        "DESIGN.md section 3, C14",
    ),
    "C15": (
        "model_checking",
        "exhaustive enumeration of chunk schedules on the real line buffer vs. line-by-line reference model",
        "Every text up to the length bound over {a,space,TAB,CR,LF} is pushed through the real "
        "_generate_with_line_buffer under every way of cutting it into chunks (plus empty chunks) and every processor "
        "list; each execution must equal the one-chunk execution and a boring line-by-line reference. The chunk "
        "schedule is the only nondeterminism of this code and it is enumerated completely within the bound.",
        "Alphabet of 5 characters stands for all characters (whitespace / CR / LF / other are the only classes the "
        "code distinguishes); text length <= 7; processors fresh per execution.",
        "DESIGN.md section 3, C15",
    ),
}

ALL = [f"C{i:02d}" for i in range(1, 21)]


def main() -> None:
    checks = []
    for pid in ALL:
        if pid not in CHECKS:
            continue
        cat, tech, text, note, ref = CHECKS[pid]
        checks.append(
            {
                "property_id": pid,
                "quick_cmd": f"./check {pid} --tier quick",
                "thorough_cmd": f"./check {pid} --tier thorough",
                "evidence_file": f"evidence/{pid}.json",
                "replay_cmd_template": f"./check {pid} --replay {{path}}",
                "engine": "vf",
                "level_claimed": {"category": cat, "text": text, "design_ref": ref},
                "level_note": note,
                "technique": tech,
            }
        )
    man = {
        "version": 1,
        "setup_cmd": "./setup.sh",
        "hooks": {
            "guard": "NUNAVUT_VERIF",
            "enable": "no hooks: every seam is reached by harness-side interposition; checks import /repo/src directly",
            "baseline_off_cmd": BASELINE_OFF,
            "source_commits": [],
            "add_only": True,
        },
        "engines": [
            {
                "name": "vf",
                "path": "vf/",
                "serves_properties": sorted(CHECKS),
                "kind_free_text": "hand-written explicit-state / stateless bounded-exhaustive explorer in Python "
                "driving the real nunavut code and the code it generates (compiled with gcc/clang, sanitizers)",
            }
        ],
        "checks": checks,
        "notes": "Known findings and fixed defects: known_findings.json. Design and mutation results: DESIGN.md.",
        "not_applicable": [
            {"property_id": pid, "reason": "check not built yet in this session (planned, see DESIGN.md section 6)"}
            for pid in ALL
            if pid not in CHECKS
        ],
    }
    import jsonschema

    jsonschema.validate(man, json.loads(pathlib.Path("/root/.vp/MANIFEST.schema.json").read_text()))
    (VERIF / "MANIFEST.json").write_text(json.dumps(man, indent=1) + "\n")
    print(f"MANIFEST.json: {len(checks)} checks, {len(man['not_applicable'])} not claimed")


if __name__ == "__main__":
    main()
