#!/bin/bash
# usage: tools/seedsweep.sh "<seeds>" [ID ...]  -> every check's quick tier under several VERIF_SEED values, from a fresh process each,
# evidence/replays redirected (VERIF_OUT) so /verif/evidence is not disturbed. Prints one line per run; rc must be 0 everywhere.
cd /verif || exit 2
SEEDS="$1"; shift
IDS=("$@"); [ ${#IDS[@]} -eq 0 ] && IDS=($(/venv/bin/python -c "import json; print(' '.join(c['property_id'] for c in json.load(open('MANIFEST.json'))['checks']))"))
OUT=$(mktemp -d /var/tmp/seedsweep.XXXXXX)
for id in "${IDS[@]}"; do for s in $SEEDS; do
  VERIF_SEED=$s VERIF_OUT="$OUT" ./check "$id" --tier quick > "$OUT/$id.$s.log" 2>&1; rc=$?
  echo "$id seed=$s rc=$rc $(grep -c '^VIOLATION' "$OUT/$id.$s.log") violations; $(tail -1 "$OUT/$id.$s.log" | grep -o 'wall=[0-9.]*s')"
  [ $rc -ne 0 ] && grep '^VIOLATION\|HARNESS' "$OUT/$id.$s.log" | head -3
done; done
rm -rf "$OUT"
