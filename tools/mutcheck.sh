#!/bin/bash
# usage: tools/mutcheck.sh <patch-file> <check-id>... [--baseline] [--tier T]
# Applies a patch (git diff format, relative to the repo root) to a scratch copy of /repo, runs the named checks against
# the copy (VERIF_REPO), optionally the pinned suite, prints exit codes, removes the copy.
set -u
PATCH="$(readlink -f "$1")"; shift
IDS=(); BASE=0; TIER=quick
while [ $# -gt 0 ]; do case "$1" in --baseline) BASE=1;; --tier) shift; TIER="$1";; *) IDS+=("$1");; esac; shift; done
D="$(mktemp -d /var/tmp/mut.XXXXXX)"
trap 'rm -rf "$D"' EXIT
rsync -a --exclude .git --exclude build --exclude pytest.log /repo/ "$D/"
( cd "$D" && patch -p1 -s < "$PATCH" ) || { echo "PATCH-FAILED $PATCH"; exit 3; }
cd /verif
for id in "${IDS[@]}"; do
  VERIF_REPO="$D" VERIF_OUT="$D/vout" ./check "$id" --tier "$TIER" > "$D/out.$id" 2>&1; rc=$?
  echo "MUT $(basename "$PATCH") check=$id rc=$rc $(grep -c '^VIOLATION' "$D/out.$id") violation line(s)"
  grep '^VIOLATION\|HARNESS' "$D/out.$id" | head -3
done
if [ $BASE = 1 ]; then VERIF_REPO="$D" /verif/tools/baseline.py | tail -2; fi
