#!/venv/bin/python
"""Run the pinned suite (guard off) on VERIF_REPO (default /repo) and compare with BASELINE.json stable_pass ids."""
import json, os, subprocess, sys, tempfile, xml.etree.ElementTree as ET
repo = os.environ.get("VERIF_REPO", "/repo")
base = json.load(open("/root/.vp/BASELINE.json"))
with tempfile.TemporaryDirectory(dir="/var/tmp") as d:
    junit = os.path.join(d, "j.xml")
    env = dict(os.environ, PATH="/venv/bin:" + os.environ["PATH"])
    env.pop("NUNAVUT_VERIF", None)
    env["PYTHONPATH"] = repo + "/src"  # make sure the tree under test is imported, not the editable install of /repo
    p = subprocess.run(["/venv/bin/python", "-m", "pytest", "-ra", "-q", "-p", "no:cacheprovider", "--timeout=900",
                        "--continue-on-collection-errors", f"--junitxml={junit}"], cwd=repo, env=env,
                       stdout=subprocess.PIPE, stderr=subprocess.STDOUT, text=True)
    passed = set()
    for tc in ET.parse(junit).getroot().iter("testcase"):
        if not any(c.tag in ("failure", "error", "skipped") for c in tc):
            passed.add(tc.get("classname") + "::" + tc.get("name"))
missing = [t for t in base["stable_pass"] if t not in passed]
print(p.stdout.strip().splitlines()[-1])
print(f"stable_pass={len(base['stable_pass'])} passing_now={len(base['stable_pass'])-len(missing)} missing={len(missing)}")
for m in missing[:40]:
    print("  MISSING", m)
sys.exit(1 if missing else 0)
