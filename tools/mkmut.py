#!/venv/bin/python
"""usage: mkmut.py <PID> <name> <repo-relative file> <old> <new>   -> /verif/mutations/<PID>/<name>.patch (unique match required)"""
import difflib, pathlib, sys
pid, name, rel, old, new = sys.argv[1:6]
old = old.encode().decode("unicode_escape"); new = new.encode().decode("unicode_escape")
src = pathlib.Path("/repo") / rel
s = src.read_text()
assert s.count(old) == 1, f"old string occurs {s.count(old)} times"
t = s.replace(old, new)
d = "".join(difflib.unified_diff(s.splitlines(True), t.splitlines(True), "a/" + rel, "b/" + rel))
out = pathlib.Path("/verif/mutations") / pid / (name + ".patch")
out.parent.mkdir(parents=True, exist_ok=True)
out.write_text(d)
print(out)
