#!/bin/bash
# usage: tools/mutation_sweep.sh [ID ...]   -> runs every mutations/<ID>/*.patch against its check (quick tier) on a scratch copy;
# appends "<ID> <patch> rc=<n>" lines to mutations/RESULTS.txt. rc=1 means the mutation was detected.
cd /verif || exit 2
IDS=("$@"); [ ${#IDS[@]} -eq 0 ] && IDS=($(ls mutations | grep '^C[0-9]'))
for id in "${IDS[@]}"; do
  for p in mutations/$id/*.patch; do
    [ -f "$p" ] || continue
    out=$(tools/mutcheck.sh "$p" "$id" 2>&1 | grep '^MUT\|PATCH-FAILED')
    echo "$id $(basename "$p") ${out#MUT * check=$id }" | tee -a mutations/RESULTS.txt
  done
done
