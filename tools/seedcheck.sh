#!/bin/bash
# usage: tools/seedcheck.sh <seed-dir with patch.diff + demo.(py|sh) + meta.json> <check-id>... [--no-baseline] [--tier T]
# Confirms a seeded change (applies, pinned suite still green, demo fails with / passes without) and runs the named checks
# against a scratch copy with the change applied. Nothing is changed in /repo.
set -u
SD="$(readlink -f "$1")"; shift
IDS=(); BASE=1; TIER=quick
while [ $# -gt 0 ]; do case "$1" in --no-baseline) BASE=0;; --tier) shift; TIER="$1";; *) IDS+=("$1");; esac; shift; done
D="$(mktemp -d /var/tmp/seed.XXXXXX)"
trap 'rm -rf "$D"' EXIT
rsync -a --exclude .git --exclude build --exclude pytest.log /repo/ "$D/"
( cd "$D" && patch -p1 -s < "$SD/patch.diff" ) || { echo "SEED $(basename "$SD") PATCH-FAILED"; exit 3; }
demo="$SD/demo.py"; run=(/venv/bin/python); [ -f "$demo" ] || { demo="$SD/demo.sh"; run=(bash); }
mkdir -p "$D/cwd"; ( cd "$D/cwd" && timeout 900 "${run[@]}" "$demo" "$D" > "$D/demo_with.log" 2>&1 ); with=$?
( cd "$D/cwd" && timeout 900 "${run[@]}" "$demo" /repo > "$D/demo_without.log" 2>&1 ); without=$?
echo "SEED $(basename "$SD") demo: with-change rc=$with, pristine rc=$without"
if [ $BASE = 1 ]; then echo "SEED $(basename "$SD") baseline: $(VERIF_REPO="$D" /verif/tools/baseline.py | tail -1)"; fi
cd /verif
for id in "${IDS[@]}"; do
  VERIF_REPO="$D" VERIF_OUT="$D/vout" ./check "$id" --tier "$TIER" > "$D/out.$id" 2>&1; rc=$?
  echo "SEED $(basename "$SD") check=$id tier=$TIER rc=$rc $(grep -c '^VIOLATION' "$D/out.$id") violation line(s)"
  grep '^VIOLATION\|HARNESS' "$D/out.$id" | head -2
done
