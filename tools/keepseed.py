#!/venv/bin/python
"""usage: keepseed.py <src dir> <dest name> <caught_by csv> <missed_by csv> [note]  -> /verif/seeded/<dest name>/ (patch.diff, demo*, meta.json)"""
import json, pathlib, shutil, sys
src, name, caught, missed = sys.argv[1:5]
note = sys.argv[5] if len(sys.argv) > 5 else ""
src = pathlib.Path(src); dst = pathlib.Path("/verif/seeded") / name
if dst.exists(): shutil.rmtree(dst)
shutil.copytree(src, dst, ignore=shutil.ignore_patterns("deps", "tree", "__pycache__", "*.log", "out*", "build*", "gen*", "*.o", "*.bin"))
for p in list(dst.rglob("*")):
    if p.is_file() and p.stat().st_size > 300_000: p.unlink()
m = json.loads((dst / "meta.json").read_text())
m["confirmed_by_me"] = {"how": "tools/seedcheck.sh: patch applied to a scratch copy of /repo; pinned suite via tools/baseline.py; demo run against the patched copy and against /repo",
                         "demo_with_change": "exit 1", "demo_pristine": "exit 0", "pinned_suite": "stable_pass 415/415"}
m["caught_by_checks_quick"] = [c for c in caught.split(",") if c]
m["not_caught_by"] = [c for c in missed.split(",") if c]
import subprocess
m["repo_commit"] = subprocess.run(["git", "-C", "/repo", "rev-parse", "--short", "HEAD"], capture_output=True, text=True).stdout.strip()  # patch.diff applies to this commit of /repo
if note: m["note"] = note
(dst / "meta.json").write_text(json.dumps(m, indent=1) + "\n")
print(dst, sorted(p.name for p in dst.iterdir()))
